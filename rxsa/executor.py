"""E2/E3 -- per-kind specialiser, path enumerator and effect extraction.

``Executor.run(spec, kind, config)`` enumerates every control path of a handler
for one event kind and one valuation of the configuration parameters and
returns, per path, the linear *trace* of effects (emissions, store calls, user
calls, closure writes, decisions ...) with all values given as terms
(see terms.py).  No value is ever computed: tests that are not decided by the
event kind, by the configuration or by syntactic identity of their operands
fork the path; the same test term gets the same outcome along a path
(correlated conditions).
"""
from __future__ import annotations

import ast
from typing import Dict, List, Optional

from .loader import AnalysisError, Module, Program, dotted_name
from .terms import (EV, EVENT_FIELDS, EVSTORE, EVTOPO, KIND_CLASSES, const,
                    is_raise, show, subterms)

STORE_OPS = {"add_key", "del_key", "get_state", "set_state", "iterate_state",
             "add_map", "del_map", "get_map", "iterate_map"}
STORE_ARITY = {"add_key": 2, "del_key": 2, "get_state": 2, "set_state": 3, "iterate_state": 1,
               "add_map": 3, "del_map": 3, "get_map": 3, "iterate_map": 2}
TOPO_OPS = {"create_state", "create_mapper"}
MUTATORS = {"append", "appendleft", "extend", "extendleft", "add", "clear", "pop", "popleft",
            "popitem", "remove", "discard", "insert", "update", "setdefault", "sort",
            "reverse", "write", "close", "seek", "set_data"}
# builtins whose result is a pure function of their arguments and which cannot
# raise for the argument shapes used in handlers
PURE_BUILTINS = {"type", "isinstance", "callable", "len", "all", "any", "tuple", "list",
                 "range", "int", "float", "str", "bool", "enumerate", "zip", "dict", "set",
                 "min", "max", "abs", "sorted", "reversed", "sum", "getattr", "hasattr",
                 "array", "deque", "repr", "id", "divmod", "round", "bytes", "bytearray", "frozenset"}
SILENT_BUILTINS = {"print"}
CMP_NAMES = {ast.Eq: "Eq", ast.NotEq: "NotEq", ast.Lt: "Lt", ast.LtE: "LtE", ast.Gt: "Gt",
             ast.GtE: "GtE", ast.Is: "Is", ast.IsNot: "IsNot", ast.In: "In", ast.NotIn: "NotIn"}
NEG_CMP = {"Eq": "NotEq", "NotEq": "Eq", "Lt": "GtE", "GtE": "Lt", "Gt": "LtE", "LtE": "Gt",
           "Is": "IsNot", "IsNot": "Is", "In": "NotIn", "NotIn": "In"}

MAX_INLINE_DEPTH = 6
# functions of the operator module are the operators they name
OPERATOR_CMP = {"operator.lt": "Lt", "operator.le": "LtE", "operator.gt": "Gt", "operator.ge": "GtE", "operator.eq": "Eq",
                "operator.ne": "NotEq", "operator.is_": "Is", "operator.is_not": "IsNot"}
OPERATOR_BIN = {"operator.add": "Add", "operator.sub": "Sub", "operator.mul": "Mult", "operator.truediv": "Div",
                "operator.floordiv": "FloorDiv", "operator.mod": "Mod"}


NAMEDTUPLE_ATTRS = ("_replace", "_asdict", "_fields", "_make", "index", "count", "__class__", "__len__")


class Eff:
    """One entry of a trace."""
    __slots__ = ("k", "node", "mod", "d")

    def __init__(self, _k, _node, _mod, **d):
        self.k = _k
        self.node = _node
        self.mod = _mod
        self.d = d

    def __getattr__(self, name):
        try:
            return self.d[name]
        except KeyError:
            raise AttributeError(name)

    def where(self):
        return "%s:%d" % (self.mod.relpath, getattr(self.node, "lineno", 0))

    def brief(self):
        k = self.k
        d = self.d
        if k == "decision":
            return "[%s] %s" % ("T" if d["outcome"] else "F", show(d["test"]))
        if k == "emit":
            return "%s.%s(%s)%s" % (show(d["target"]), d["method"], show(d["arg"]) if d["arg"] is not None else "",
                                     " !raised" if d.get("raised") else "")
        if k == "store":
            return "store.%s(%s)%s" % (d["op"], ", ".join(show(x) for x in d["args"]), " !raised" if d.get("raised") else "")
        if k == "topo":
            return "topology.%s(%s)" % (d["op"], ", ".join("%s=%s" % (a, show(b)) for a, b in d["kwargs"]))
        if k == "ucall":
            return "user %s(%s)%s" % (d["name"], ", ".join(show(x) for x in d["args"]), " !raised" if d.get("raised") else "")
        if k == "call":
            return "call %s(%s)%s" % (show(d["func"]), ", ".join(show(x) for x in d["args"]), " !raised" if d.get("raised") else "")
        if k == "mutate":
            return "mutate %s.%s(%s)" % (show(d["base"]), d["method"], ", ".join(show(x) for x in d["args"]))
        if k == "substore":
            return "%s[%s] = %s" % (show(d["base"]), show(d["index"]), show(d["value"]))
        if k == "subdel":
            return "del %s[%s]" % (show(d["base"]), show(d["index"]))
        if k == "attrstore":
            return "%s.%s = %s" % (show(d["base"]), d["attr"], show(d["value"]))
        if k == "nonlocal":
            return "nonlocal %s = %s" % (d["name"], show(d["value"]))
        if k == "assign":
            return "%s = %s" % (d["name"], show(d["value"]))
        if k == "loopiter":
            return "loop L%s iteration %d over %s" % (d["loop"], d["k"], show(d["iter"]))
        if k == "loopexit":
            return "loop L%s exit after %d" % (d["loop"], d["n"])
        if k == "return":
            return "return %s" % (show(d["value"]) if d.get("value") is not None else "")
        if k == "raise":
            return "raise %s" % show(d["exc"])
        if k == "except":
            return "except -> handler (%s)" % show(d["exc"])
        if k in ("inline", "inline_exit"):
            return "%s %s" % (k, d["name"])
        if k == "yield":
            return "yield %s%s" % ("from " if d.get("frm") else "", show(d["value"]))
        return k


class Frame:
    __slots__ = ("fn", "mod", "env", "name", "consteval")

    def __init__(self, fn, mod, env, name, consteval=False):
        self.fn = fn
        self.mod = mod
        self.env = env
        self.name = name
        self.consteval = consteval      # the frame stands for an enclosing scope evaluated at factory time


class St:
    """State of one path under construction."""
    __slots__ = ("frames", "trace", "memo", "heap", "epoch", "uid", "try_depth",
                 "loops", "truncated", "kind", "config", "max_iter")

    def fork(self):
        o = St.__new__(St)
        o.frames = [Frame(f.fn, f.mod, dict(f.env), f.name, f.consteval) for f in self.frames]
        o.trace = list(self.trace)
        o.memo = dict(self.memo)
        o.heap = dict(self.heap)
        o.epoch = self.epoch
        o.uid = self.uid
        o.try_depth = self.try_depth
        o.loops = dict(self.loops)
        o.truncated = self.truncated
        o.kind = self.kind
        o.config = self.config
        o.max_iter = self.max_iter
        return o

    def new_uid(self):
        self.uid += 1
        return self.uid

    @property
    def frame(self):
        return self.frames[-1]


class Path:
    __slots__ = ("trace", "outcome", "value", "loops", "truncated", "kind", "config")

    def __init__(self, st, outcome, value):
        self.trace = st.trace
        self.outcome = outcome      # 'normal' | 'return' | 'raise'
        self.value = value
        self.loops = dict(st.loops)
        self.truncated = st.truncated
        self.kind = st.kind
        self.config = dict(st.config)

    def effects(self, *kinds):
        return [e for e in self.trace if e.k in kinds]

    def render(self):
        return [e.brief() for e in self.trace if e.k not in ("assign",)]


class HandlerSpec:
    """What the executor needs to know about a handler (built by model.py)."""

    def __init__(self, module: Module, fn, event_param: Optional[str], roles=None, bound=None,
                 other_params=None, label="on_next", ctx=None):
        self.module = module
        self.fn = fn
        self.event_param = event_param
        self.roles = roles or {}           # (name, owner qualname) -> term
        self.bound = bound or {}           # param name -> term
        self.other_params = other_params or {}
        self.label = label
        self.ctx = ctx or {}               # (module name, owner qualname, param) -> term: factory parameters bound by
        #                                    the in-repository call chain that instantiates a shared operator template
        self.ctx_key = frozenset(self.ctx.items())
        self.instance = None               # '<module>::<factory>' of the instantiating call chain, if any
        self.heap0 = {}                    # (name, owner qualname) -> term: closure variables holding a function value
        #                                    chosen at subscription time (convert = getattr(codec, 'encode'), ...)

    @property
    def qualname(self):
        q = self.module.qualname(self.fn)
        return "%s@%s" % (q, self.instance) if self.instance else q


class Executor:
    def __init__(self, program: Program, max_paths=4096):
        self.program = program
        self.max_paths = max_paths

    # ==================================================================
    def run(self, spec: HandlerSpec, kind: Optional[str], config: Dict[str, str], max_iter=1,
            extra_env=None, inline=True, no_inline=None, only_inline=None) -> List[Path]:
        self.spec = spec
        self.inline = inline
        self.undecided = {}        # factory parameter -> {'truth'|'bool'|'none'}: tests the configuration did not decide
        self.no_inline = set(no_inline or ())
        self.only_inline = None if only_inline is None else set(only_inline)
        st = St.__new__(St)
        env = {}
        sc = spec.module.scopes[spec.fn]
        for p in sc.params:
            if p == spec.event_param:
                env[p] = EV
            elif p in spec.bound:
                env[p] = spec.bound[p]
            elif p in spec.other_params:
                env[p] = spec.other_params[p]
            elif (p, sc.qualname) in spec.roles:
                env[p] = spec.roles[(p, sc.qualname)]      # e.g. the observer parameter of a subscribe function
            else:
                env[p] = ("arg", p)
        if extra_env:
            env.update(extra_env)
        st.frames = [Frame(spec.fn, spec.module, env, sc.qualname)]
        st.trace = []
        st.memo = {}
        st.heap = dict(spec.heap0)
        st.epoch = 0
        st.uid = 0
        st.try_depth = 0
        st.loops = {}
        st.truncated = False
        st.kind = kind
        st.config = config
        st.max_iter = max_iter
        paths = []
        body = spec.fn.body if not isinstance(spec.fn, ast.Lambda) else [ast.Return(value=spec.fn.body, lineno=spec.fn.lineno, col_offset=0)]
        for s1, out in self.exec_block(body, st):
            if out is None:
                paths.append(Path(s1, "normal", None))
            elif out[0] == "return":
                paths.append(Path(s1, "return", out[1]))
            elif out[0] == "raise":
                paths.append(Path(s1, "raise", out[1]))
            else:
                paths.append(Path(s1, "normal", None))
            if len(paths) > self.max_paths:
                raise AnalysisError("path explosion (> %d paths) in %s kind=%s" % (self.max_paths, spec.qualname, kind))
        return paths

    # ==================================================================
    # name lookup
    def lookup(self, name, st: St):
        fr = st.frame
        if name in fr.env:
            return fr.env[name]
        mod = fr.mod
        sc = mod.scopes.get(fr.fn)
        if fr.consteval:
            cur = sc           # the scope itself is an enclosing scope of the handler under analysis
        else:
            if sc is not None and name in sc.locals and name not in sc.nonlocals and name not in sc.globals:
                return ("undef", name)
            cur = sc.parent if sc is not None else None
            if sc is not None and name in sc.params:
                return ("arg", name)
        while cur is not None:
            if name in cur.params:
                b = self.spec.ctx.get((mod.name, cur.qualname, name))
                if b is not None:
                    return b
                role = self.spec.roles.get((name, cur.qualname))
                if role is not None:
                    return role
                return ("param", name, cur.qualname)
            if name in cur.locals and name not in cur.nonlocals:
                key = (name, cur.qualname)
                if key in st.heap:
                    return st.heap[key]
                role = self.spec.roles.get(key)
                if role is not None:
                    return role
                if name in cur.defs:
                    return ("func", cur.defs[name], mod)
                d = self._free_def(mod, cur, name, st)
                if d is not None:
                    return d
                return ("free", name, cur.qualname)
            cur = cur.parent
        b = mod.bindings.get(name)
        if b is not None:
            return self._global_term(mod, name)
        return ("builtin", name)

    # constants of enclosing scopes: a local of an enclosing function that is assigned exactly once, unconditionally,
    # and never rebound by a nested function, with an expression that evaluates -- at factory time, without effects --
    # to an immutable value (window_span = window - 1, is_joined = zip is True or combine is True, notset = markers.X,
    # handlers = {rs.OnNextMux: on_item, ...}) is replaced by that value
    CONST_HEADS = {"const", "param", "func", "lambda", "kindcls", "modvar", "glob", "binop", "unop", "cmp", "boolop", "not",
                   "tuple", "dict", "partial", "attr", "obs", "fstr", "ifexp", "methodcaller", "attrgetter", "bound"}

    def _free_def(self, mod, scope, name, st, depth=0):
        cache = self.__dict__.setdefault("_free_defs", {})
        key = (id(scope.node), name, self.spec.ctx_key, tuple(sorted(st.config.items())), id(self.spec.roles))
        und = self.__dict__.setdefault("_free_def_undecided", {})
        if key in cache:
            # the configuration tests this evaluation could not decide are part of its result
            for n, ks in und.get(key, {}).items():
                self.undecided.setdefault(n, set()).update(ks)
            return cache[key]
        cache[key] = None
        if depth > 6 or isinstance(scope.node, ast.Lambda) or not hasattr(scope.node, "body"):
            return None
        a = self._single_assignment(scope, name)
        if a is None:
            return None
        before = {n: set(ks) for n, ks in self.undecided.items()}
        t = self._const_eval(mod, scope, a.value, st, len(cache))
        und[key] = {n: set(ks) - before.get(n, set()) for n, ks in self.undecided.items() if set(ks) - before.get(n, set())}
        if t is None or not self._immutable(t, True):
            return None
        if t[0] == "dict" and self._container_escapes(scope, name):
            return None
        cache[key] = t
        return t

    def _immutable(self, t, top=False):
        """The value denoted by t cannot change after it was computed (no list / set / object constructed by a call,
        except library constructors stored in a table literal)."""
        h = t[0]
        if h in ("const", "param", "func", "lambda", "kindcls", "modvar", "glob", "obs", "bound", "methodcaller", "attrgetter", "partial"):
            return True
        if h in ("free", "arg") and not top:
            return True        # a reference to another variable, inside an expression (last_branch = n - 1)
        if h in ("binop", "unop", "cmp", "boolop", "not", "ifexp", "fstr"):
            return all(self._immutable(x) for x in t[1:] if isinstance(x, tuple))
        if h == "attr":
            return self._immutable(t[1])
        if h == "tuple" or (h == "dict" and top):
            return all(self._immutable(x) or (x[0] == "call" and x[1][0] == "glob") for x in t[1:])
        return False

    def _single_assignment(self, scope, name):
        cache = self.__dict__.setdefault("_single_assign", {})
        key = (id(scope.node), name)
        if key in cache:
            return cache[key]
        cache[key] = None
        assigns = []
        stack = list(scope.node.body)
        while stack:
            n = stack.pop()
            if isinstance(n, (ast.FunctionDef, ast.AsyncFunctionDef, ast.Lambda, ast.ClassDef)):
                continue
            if isinstance(n, ast.Assign):
                for t in n.targets:
                    for x in ast.walk(t):
                        if isinstance(x, ast.Name) and x.id == name:
                            assigns.append(n if (len(n.targets) == 1 and isinstance(n.targets[0], ast.Name)) else None)
            elif isinstance(n, (ast.AugAssign, ast.AnnAssign, ast.For, ast.With, ast.NamedExpr)):
                tgt = getattr(n, "target", None)
                for x in ([tgt] if tgt is not None else []):
                    for y in ast.walk(x):
                        if isinstance(y, ast.Name) and y.id == name:
                            assigns.append(None)
            for c in ast.iter_child_nodes(n):
                stack.append(c)
        # nested functions may rebind it through nonlocal
        for n in ast.walk(scope.node):
            if isinstance(n, ast.Nonlocal) and name in n.names:
                return None
        if len(assigns) != 1 or assigns[0] is None:
            return None
        # only top-level statements of the scope (not under if/for/try) are unconditional
        if assigns[0] not in scope.node.body:
            return None
        cache[key] = assigns[0]
        return assigns[0]

    def _container_escapes(self, scope, name):
        """True if the container bound to *name* may be modified after its construction: an item store / delete, a
        mutating method, or the container handed to other code (anything but .get / indexing / membership tests)."""
        parent = {}
        for n in ast.walk(scope.node):
            for c in ast.iter_child_nodes(n):
                parent[c] = n
        for n in ast.walk(scope.node):
            if not (isinstance(n, ast.Name) and n.id == name):
                continue
            if isinstance(n.ctx, ast.Store):
                continue
            p = parent.get(n)
            if isinstance(p, ast.Subscript) and p.value is n:
                if isinstance(p.ctx, (ast.Store, ast.Del)):
                    return True
                continue
            if isinstance(p, ast.Attribute) and p.value is n:
                if p.attr in ("get", "keys", "values", "items", "__contains__"):
                    continue
                return True
            if isinstance(p, ast.Compare) and n in p.comparators:
                continue
            return True
        return False

    def eval_in_scope(self, module, fn, node, ctx=None, roles=None, config=None, capture=None):
        """Term of the expression *node* evaluated at factory time in the lexical scope of fn (None: module level);
        None if it has effects or several outcomes.  *capture* collects the parameter bindings of the repository
        functions entered on the way (the closures they return refer to these parameters)."""
        self.spec = HandlerSpec(module, fn, None, roles=roles, ctx=ctx)
        self.inline = True
        self.undecided = {}
        self.capture = capture
        try:
            st = St.__new__(St)
            st.config = config or {}
            return self._const_eval(module, module.scopes.get(fn) if fn is not None else None, node, st, 7)
        finally:
            self.capture = None

    def eval_all_in_scope(self, module, fn, node, ctx=None, roles=None):
        """Terms of every outcome of the expression (a choice the analysis cannot decide: a if cond else b), provided
        none has effects; None otherwise."""
        self.spec = HandlerSpec(module, fn, None, roles=roles, ctx=ctx)
        self.inline = True
        self.undecided = {}
        self.capture = None
        scope = module.scopes.get(fn) if fn is not None else None
        s0 = St.__new__(St)
        s0.frames = [Frame(scope.node if scope is not None else None, module, {}, scope.qualname if scope is not None else "<module>", True)]
        s0.trace, s0.memo, s0.heap, s0.epoch, s0.uid, s0.try_depth, s0.loops = [], {}, {}, 0, 900000, 0, {}
        s0.truncated, s0.kind, s0.config, s0.max_iter = False, None, {}, 1
        out = []
        try:
            for s1, t in self.eval(node, s0):
                if is_raise(t) or any(e.k not in ("assign", "inline", "inline_exit", "return", "decision") for e in s1.trace):
                    return None
                out.append(t)
                if len(out) > 8:
                    return None
        except AnalysisError:
            return None
        return out

    def _const_eval(self, mod, scope, node, st, salt):
        s0 = St.__new__(St)
        s0.frames = [Frame(scope.node if scope is not None else None, mod, {}, scope.qualname if scope is not None else "<module>", True)]
        s0.trace = []
        s0.memo = {}
        s0.heap = {}
        s0.epoch = 0
        s0.uid = 100000 + 1000 * salt
        s0.try_depth = 0
        s0.loops = {}
        s0.truncated = False
        s0.kind = None
        s0.config = st.config
        s0.max_iter = 1
        outs = []
        try:
            for s1, t in self.eval(node, s0):
                outs.append((s1, t))
                if len(outs) > 1:
                    return None
        except AnalysisError:
            return None
        if len(outs) != 1 or is_raise(outs[0][1]):
            return None
        s1, t = outs[0]
        for e in s1.trace:
            if e.k in ("assign", "inline", "inline_exit", "return"):
                continue
            if e.k == "call" and e.func[0] == "glob" and t[0] in ("dict", "tuple"):
                continue        # a library constructor inside a table literal (attrgetter('item'), ...)
            return None
        return t

    def _global_term(self, mod, dotted):
        ref = self.program.resolve_dotted(mod, dotted)
        return self._ref_term(ref, dotted)

    def _ref_term(self, ref, dotted):
        if ref[0] == "def":
            return ("func", ref[2], ref[1])
        if ref[0] == "class":
            return ("glob", self.program.canonical(ref))
        if ref[0] == "assign":
            # namedtuple event classes: rxsci.mux.OnNextMux = namedtuple(...)
            last = dotted.split(".")[-1]
            if last in KIND_CLASSES and ref[1].name.startswith("rxsci"):
                return ("kindcls", KIND_CLASSES[last])
            # a module constant bound exactly once to a literal is that literal (_ROOT_KEY = (0,))
            if ref[1].bind_count.get(last, 0) == 1:
                lit = _literal_term(ref[2], ref[1])
                if lit is not None and lit[0] == "dict" and _module_mutates(ref[1], last):
                    lit = None       # a table somebody writes to is not a constant
                if lit is not None:
                    return lit
            return ("modvar", "%s.%s" % (ref[1].name, last), ref[2])
        if ref[0] == "module":
            return ("glob", ref[1])
        if ref[0] == "ext":
            return ("glob", ref[1])
        if ref[0] == "attr":
            return ("glob", self.program.canonical(ref))
        return ("glob", ref[1] if len(ref) > 1 else dotted)

    def _holder(self, name, st: St, want):
        """(owner qualname, {slot: initial value node}) when *name*, seen from the current frame, is a local of an ENCLOSING scope bound there exactly once
        to a state holder -- want 'attr': types.SimpleNamespace(...) or an instance of a class defined in that scope (or at module level);
        want 'item': a one-element list display.  The handlers' `holder.x = v` / `holder[0] = v` then stand for `nonlocal x; x = v`:
        per-subscription state kept in an object instead of closure variables.  None otherwise."""
        fr = st.frame
        if name in fr.env:
            return None
        mod = fr.mod
        sc = mod.scopes.get(fr.fn)
        if sc is None or (name in sc.locals and name not in sc.nonlocals) or name in sc.params:
            return None
        cur = sc.parent
        while cur is not None:
            if name in cur.params:
                return None
            if name in cur.locals and name not in cur.nonlocals:
                break
            cur = cur.parent
        if cur is None or not isinstance(cur.node, (ast.FunctionDef, ast.AsyncFunctionDef)):
            return None
        cache = mod.__dict__.setdefault("_holder_cache", {})
        key = (id(cur.node), name)
        if key not in cache:
            val = None
            n_bind = 0
            for s in ast.walk(cur.node):
                if mod.enclosing_function(s) is not cur.node:
                    continue
                if isinstance(s, ast.Assign):
                    for tg in s.targets:
                        for x in ast.walk(tg):
                            if isinstance(x, ast.Name) and x.id == name and isinstance(x.ctx, ast.Store):
                                n_bind += 1
                                val = s.value if (len(s.targets) == 1 and tg is x) else None
                elif isinstance(s, (ast.AugAssign, ast.AnnAssign, ast.For, ast.NamedExpr, ast.With)):
                    tgs = [s.target] if hasattr(s, "target") else [i.optional_vars for i in s.items if i.optional_vars is not None]
                    for tg in tgs:
                        if any(isinstance(x, ast.Name) and x.id == name for x in ast.walk(tg)):
                            n_bind += 2
            kind, init = None, {}
            if n_bind == 1 and val is not None:
                if isinstance(val, ast.Call) and not val.args:
                    dn = ast.unparse(val.func)
                    if dn in ("types.SimpleNamespace", "SimpleNamespace") and all(k.arg for k in val.keywords):
                        kind, init = "attr", {k.arg: k.value for k in val.keywords}
                    elif isinstance(val.func, ast.Name) and not val.keywords:
                        cls = [c for c in ast.walk(cur.node) if isinstance(c, ast.ClassDef) and c.name == val.func.id] or \
                              [c for c in mod.tree.body if isinstance(c, ast.ClassDef) and c.name == val.func.id]
                        if len(cls) == 1 and not cls[0].bases and not cls[0].decorator_list:
                            body = cls[0].body
                            meths = [b for b in body if isinstance(b, ast.FunctionDef)]
                            # a plain record: class-level defaults and / or an __init__ that only assigns constants to self
                            ok = all(m.name == "__init__" for m in meths)
                            for b in body:
                                if isinstance(b, ast.Assign) and len(b.targets) == 1 and isinstance(b.targets[0], ast.Name) and b.targets[0].id != "__slots__":
                                    init[b.targets[0].id] = b.value
                            for m in meths:
                                if len(m.args.args) != 1:
                                    ok = False
                                for b in m.body:
                                    if isinstance(b, ast.Assign) and len(b.targets) == 1 and isinstance(b.targets[0], ast.Attribute) \
                                            and isinstance(b.targets[0].value, ast.Name) and b.targets[0].value.id == m.args.args[0].arg:
                                        init[b.targets[0].attr] = b.value
                                    elif not (isinstance(b, ast.Expr) and isinstance(b.value, ast.Constant)) and not isinstance(b, ast.Pass):
                                        ok = False
                            if ok:
                                kind = "attr"
                elif isinstance(val, ast.List) and len(val.elts) == 1 and not isinstance(val.elts[0], ast.Starred):
                    kind, init = "item", {0: val.elts[0]}
            cache[key] = (kind, cur.qualname, init)
        kind, owner, init = cache[key]
        if kind != want:
            return None
        return owner, init

    def owner_of_nonlocal(self, name, st: St):
        fr = st.frame
        sc = fr.mod.scopes.get(fr.fn)
        cur = sc.parent if sc else None
        while cur is not None:
            if name in cur.locals and name not in cur.nonlocals or name in cur.params:
                return cur.qualname
            cur = cur.parent
        return "<module>"

    # ==================================================================
    # statements
    def exec_block(self, stmts, st: St):
        if not stmts:
            yield st, None
            return
        first, rest = stmts[0], stmts[1:]
        for s1, out in self.exec_stmt(first, st):
            if out is not None:
                yield s1, out
            else:
                yield from self.exec_block(rest, s1)

    def exec_stmt(self, node, st: St):
        m = getattr(self, "st_" + type(node).__name__, None)
        if m is None:
            raise AnalysisError("statement kind %s not supported at %s" % (type(node).__name__, st.frame.mod.where(node)))
        yield from m(node, st)

    def st_Pass(self, node, st):
        yield st, None

    st_Nonlocal = st_Pass
    st_Global = st_Pass
    st_Import = st_Pass
    st_ImportFrom = st_Pass

    def st_Assert(self, node, st):
        yield st, None

    def st_FunctionDef(self, node, st):
        st.frame.env[node.name] = ("func", node, st.frame.mod)
        yield st, None

    def st_ClassDef(self, node, st):
        st.frame.env[node.name] = ("opaque", "class " + node.name, ())
        yield st, None

    def st_Expr(self, node, st):
        if isinstance(node.value, ast.Constant):
            yield st, None      # docstring / commented-out block
            return
        for s1, t in self.eval(node.value, st):
            if is_raise(t):
                yield s1, ("raise", t[1])
            else:
                yield s1, None

    def st_Return(self, node, st):
        if node.value is None:
            st.trace.append(Eff("return", node, st.frame.mod, value=None))
            yield st, ("return", const(None))
            return
        for s1, t in self.eval(node.value, st):
            if is_raise(t):
                yield s1, ("raise", t[1])
            else:
                s1.trace.append(Eff("return", node, s1.frame.mod, value=t))
                yield s1, ("return", t)

    def st_Raise(self, node, st):
        if node.exc is None:
            st.trace.append(Eff("raise", node, st.frame.mod, exc=("exc", "reraise")))
            yield st, ("raise", ("exc", "reraise"))
            return
        for s1, t in self.eval(node.exc, st):
            if is_raise(t):
                yield s1, ("raise", t[1])
            else:
                s1.trace.append(Eff("raise", node, s1.frame.mod, exc=t))
                yield s1, ("raise", t)

    def st_Break(self, node, st):
        yield st, ("break",)

    def st_Continue(self, node, st):
        yield st, ("continue",)

    def st_Delete(self, node, st):
        for tgt in node.targets:
            if isinstance(tgt, ast.Subscript):
                for s1, ts in self.eval_seq([tgt.value, tgt.slice], st):
                    if is_raise(ts):
                        yield s1, ("raise", ts[1])
                        return
                    s1.epoch += 1
                    s1.trace.append(Eff("subdel", node, s1.frame.mod, base=ts[0], index=ts[1]))
                    st = s1
                    break
            elif isinstance(tgt, ast.Name):
                st.frame.env.pop(tgt.id, None)
        yield st, None

    def st_Assign(self, node, st):
        for s1, t in self.eval(node.value, st):
            if is_raise(t):
                yield s1, ("raise", t[1])
                continue
            yield from self._assign_targets(node.targets, t, s1, node)

    def st_AnnAssign(self, node, st):
        if node.value is None:
            yield st, None
            return
        for s1, t in self.eval(node.value, st):
            if is_raise(t):
                yield s1, ("raise", t[1])
                continue
            yield from self._assign_targets([node.target], t, s1, node)

    def _assign_targets(self, targets, t, st, node):
        if not targets:
            yield st, None
            return
        for s1, out in self._assign(targets[0], t, st, node):
            if out is not None:
                yield s1, out
            else:
                yield from self._assign_targets(targets[1:], t, s1, node)

    def _assign(self, tgt, t, st: St, node):
        mod = st.frame.mod
        if isinstance(tgt, ast.Name):
            sc = mod.scopes.get(st.frame.fn)
            if sc is not None and tgt.id in sc.nonlocals:
                owner = self.owner_of_nonlocal(tgt.id, st)
                st.heap[(tgt.id, owner)] = t
                st.epoch += 1
                st.trace.append(Eff("nonlocal", node, mod, name=tgt.id, owner=owner, value=t))
            else:
                st.frame.env[tgt.id] = t
                st.trace.append(Eff("assign", node, mod, name=tgt.id, value=t))
            yield st, None
        elif isinstance(tgt, (ast.Tuple, ast.List)):
            n = len(tgt.elts)
            fields = EVENT_FIELDS.get(st.kind) if t == EV else None
            star = [k for k, e in enumerate(tgt.elts) if isinstance(e, ast.Starred)]
            for k, e in enumerate(tgt.elts):
                if isinstance(e, ast.Starred):
                    # a, *rest, z = t : rest = t[k : -(number of targets after the star)]
                    after = n - k - 1
                    sub = ("sub", t, ("slice", const(k), const(-after) if after else None))
                    e = e.value
                elif star and k > star[0]:
                    sub = ("sub", t, const(k - n))        # counted from the end
                elif fields is not None and len(fields) == n:
                    sub = ("attr", EV, fields[k])       # key, item, store = i : the event is a namedtuple
                elif t[0] in ("tuple", "list") and len(t) - 1 == n:
                    sub = t[1 + k]
                else:
                    sub = ("sub", t, const(k))
                done = False
                for s1, out in self._assign(e, sub, st, node):
                    st = s1
                    done = True
                    if out is not None:
                        yield s1, out
                        return
                if not done:
                    return
            yield st, None
        elif isinstance(tgt, ast.Subscript) and isinstance(tgt.value, ast.Name) and isinstance(tgt.slice, ast.Constant) and tgt.slice.value == 0 \
                and not isinstance(tgt.slice.value, bool) and self._holder(tgt.value.id, st, "item") is not None:
            owner = self._holder(tgt.value.id, st, "item")[0]
            name = "%s[0]" % tgt.value.id
            st.heap[(name, owner)] = t
            st.epoch += 1
            st.trace.append(Eff("nonlocal", node, mod, name=name, owner=owner, value=t))
            yield st, None
        elif isinstance(tgt, ast.Attribute) and isinstance(tgt.value, ast.Name) and self._holder(tgt.value.id, st, "attr") is not None:
            owner = self._holder(tgt.value.id, st, "attr")[0]
            name = "%s.%s" % (tgt.value.id, tgt.attr)
            st.heap[(name, owner)] = t
            st.epoch += 1
            st.trace.append(Eff("nonlocal", node, mod, name=name, owner=owner, value=t))
            yield st, None
        elif isinstance(tgt, ast.Subscript):
            for s1, ts in self.eval_seq([tgt.value, tgt.slice], st):
                if is_raise(ts):
                    yield s1, ("raise", ts[1])
                    continue
                s1.epoch += 1
                s1.trace.append(Eff("substore", node, mod, base=ts[0], index=ts[1], value=t))
                yield s1, None
        elif isinstance(tgt, ast.Attribute):
            for s1, b in self.eval(tgt.value, st):
                if is_raise(b):
                    yield s1, ("raise", b[1])
                    continue
                s1.epoch += 1
                s1.trace.append(Eff("attrstore", node, mod, base=b, attr=tgt.attr, value=t))
                yield s1, None
        else:
            raise AnalysisError("assignment target %s not supported at %s" % (type(tgt).__name__, mod.where(node)))

    def st_AugAssign(self, node, st):
        load = _as_load(node.target)
        for s1, ts in self.eval_seq([load, node.value], st):
            if is_raise(ts):
                yield s1, ("raise", ts[1])
                continue
            t = ("binop", type(node.op).__name__, ts[0], ts[1])
            yield from self._assign(node.target, t, s1, node)

    def st_If(self, node, st):
        for s1, b in self.truth(node.test, st):
            if is_raise(b):
                yield s1, ("raise", b[1])
            elif b:
                yield from self.exec_block(node.body, s1)
            else:
                yield from self.exec_block(node.orelse, s1)

    def st_Match(self, node, st):
        """match <name>: with class patterns without sub-patterns, value patterns, or-patterns of those and a wildcard is the if / elif
        chain of isinstance / == tests it stands for"""
        subj = node.subject

        def test_of(pat):
            if isinstance(pat, ast.MatchClass) and not pat.patterns and not pat.kwd_patterns:
                return ast.Call(func=ast.Name(id="isinstance", ctx=ast.Load()), args=[subj, pat.cls], keywords=[])
            if isinstance(pat, ast.MatchValue):
                return ast.Compare(left=subj, ops=[ast.Eq()], comparators=[pat.value])
            if isinstance(pat, ast.MatchSingleton):
                return ast.Compare(left=subj, ops=[ast.Is()], comparators=[ast.Constant(pat.value)])
            if isinstance(pat, ast.MatchOr):
                parts = [test_of(x) for x in pat.patterns]
                return None if any(x is None for x in parts) else ast.BoolOp(op=ast.Or(), values=parts)
            if isinstance(pat, ast.MatchAs) and pat.pattern is None and pat.name is None:
                return ast.Constant(True)
            return None
        if not isinstance(subj, ast.Name):
            raise AnalysisError("match on %s not supported at %s (a name is expected)" % (ast.unparse(subj)[:30], st.frame.mod.where(node)))
        chain = None
        for case in reversed(node.cases):
            tst = test_of(case.pattern)
            if tst is None:
                raise AnalysisError("match pattern %s not supported at %s" % (ast.unparse(case.pattern)[:40], st.frame.mod.where(node)))
            if case.guard is not None:
                tst = ast.BoolOp(op=ast.And(), values=[tst, case.guard])
            nxt = ast.If(test=tst, body=case.body, orelse=[chain] if chain is not None else [])
            ast.copy_location(nxt, case.pattern)
            chain = nxt
        ast.fix_missing_locations(chain)
        for n in ast.walk(chain):
            if not hasattr(n, "lineno"):
                ast.copy_location(n, node)
        yield from self.st_If(chain, st)

    def st_With(self, node, st):
        # with contextlib.suppress(E, ...): body   ==   try: body / except (E, ...): pass
        if len(node.items) == 1 and node.items[0].optional_vars is None and isinstance(node.items[0].context_expr, ast.Call):
            ce = node.items[0].context_expr
            if ast.unparse(ce.func) in ("contextlib.suppress", "suppress") and ce.args and not ce.keywords:
                typ = ce.args[0] if len(ce.args) == 1 else ast.Tuple(elts=list(ce.args), ctx=ast.Load())
                handler = ast.ExceptHandler(type=typ, name=None, body=[ast.Pass()])
                tr = ast.Try(body=node.body, handlers=[handler], orelse=[], finalbody=[])
                for x in (handler, tr, typ):
                    ast.copy_location(x, node)
                ast.fix_missing_locations(tr)
                yield from self.st_Try(tr, st)
                return

        def items(k, s):
            if k == len(node.items):
                yield from self.exec_block(node.body, s)
                return
            it = node.items[k]
            for s1, t in self.eval(it.context_expr, s):
                if is_raise(t):
                    yield s1, ("raise", t[1])
                    continue
                if it.optional_vars is not None:
                    for s2, out in self._assign(it.optional_vars, t, s1, node):
                        if out is not None:
                            yield s2, out
                        else:
                            yield from items(k + 1, s2)
                else:
                    yield from items(k + 1, s1)
        yield from items(0, st)

    # ---- loops -------------------------------------------------------
    def st_For(self, node, st):
        for s1, it in self.eval(node.iter, st):
            if is_raise(it):
                yield s1, ("raise", it[1])
                continue
            loop = s1.new_uid()
            if it[0] == "tuple" and len(it) <= 9 and all(_concrete(x) for x in it[1:]):
                yield from self._for_literal(node, it, loop, 0, s1)
            elif it[0] == "list" and 2 <= len(it) <= 9 and not any(x[0] == "star" for x in it[1:]) \
                    and not any(e.k == "mutate" and e.d.get("base") == it for e in s1.trace):
                # a non-empty list display nobody has appended to on this path (emit([carry])): its elements, in order
                yield from self._for_literal(node, it, loop, 0, s1)
            else:
                yield from self._for_iter(node, it, loop, 0, s1)

    def _for_literal(self, node, it, loop, k, st: St):
        """for x in <literal tuple>: the iterations are the elements, in order"""
        mod = st.frame.mod
        if k >= len(it) - 1:
            st.loops[(loop, node.lineno)] = k
            st.trace.append(Eff("loopexit", node, mod, loop=loop, n=k, iter=it, literal=True))
            yield from self.exec_block(node.orelse, st)
            return
        st.trace.append(Eff("loopiter", node, mod, loop=loop, k=k, iter=it, var=it[1 + k], literal=True))
        for s1, out in self._assign(node.target, it[1 + k], st, node):
            if out is not None:
                yield s1, out
                continue
            for s2, out2 in self.exec_block(node.body, s1):
                if out2 is None or out2[0] == "continue":
                    yield from self._for_literal(node, it, loop, k + 1, s2)
                elif out2[0] == "break":
                    s2.loops[(loop, node.lineno)] = k + 1
                    s2.trace.append(Eff("loopexit", node, mod, loop=loop, n=k + 1, iter=it, broke=True, literal=True))
                    yield s2, None
                else:
                    yield s2, out2

    def _for_iter(self, node, it, loop, k, st: St):
        mod = st.frame.mod
        # exit after k iterations
        if k >= st.max_iter:
            st.loops[(loop, node.lineno)] = k
            st.trace.append(Eff("loopexit", node, mod, loop=loop, n=k, iter=it))
            yield from self.exec_block(node.orelse, st)
            return
        s_exit = st.fork()
        s_exit.loops[(loop, node.lineno)] = k
        s_exit.trace.append(Eff("loopexit", node, mod, loop=loop, n=k, iter=it))
        yield from self.exec_block(node.orelse, s_exit)
        # one more iteration
        var = ("loopvar", loop, k, "")
        st.trace.append(Eff("loopiter", node, mod, loop=loop, k=k, iter=it, var=var))
        for s1, out in self._assign(node.target, var, st, node):
            if out is not None:
                yield s1, out
                continue
            for s2, out2 in self.exec_block(node.body, s1):
                if out2 is None or out2[0] == "continue":
                    yield from self._for_iter(node, it, loop, k + 1, s2)
                elif out2[0] == "break":
                    s2.loops[(loop, node.lineno)] = k + 1
                    s2.trace.append(Eff("loopexit", node, mod, loop=loop, n=k + 1, iter=it, broke=True))
                    yield s2, None
                else:
                    yield s2, out2

    def st_While(self, node, st):
        loop = st.new_uid()
        yield from self._while_iter(node, loop, 0, st)

    def _while_iter(self, node, loop, k, st: St):
        mod = st.frame.mod
        for s1, b in self.truth(node.test, st):
            if is_raise(b):
                yield s1, ("raise", b[1])
                continue
            if not b:
                s1.loops[(loop, node.lineno)] = k
                s1.trace.append(Eff("loopexit", node, mod, loop=loop, n=k, iter=None))
                yield from self.exec_block(node.orelse, s1)
                continue
            if k >= s1.max_iter:
                # bound reached: the path is cut here (recorded, never silently)
                s1.truncated = True
                s1.loops[(loop, node.lineno)] = k
                s1.trace.append(Eff("loopexit", node, mod, loop=loop, n=k, iter=None, cut=True))
                yield s1, None
                continue
            s1.trace.append(Eff("loopiter", node, mod, loop=loop, k=k, iter=None, var=None))
            # a while test must be re-evaluated: forget its memoised outcome
            for s2, out2 in self.exec_block(node.body, s1):
                s2.memo = {t: v for t, v in s2.memo.items() if not _is_test_of(node, t, s2)}
                if out2 is None or out2[0] == "continue":
                    s2.epoch += 1
                    yield from self._while_iter(node, loop, k + 1, s2)
                elif out2[0] == "break":
                    s2.loops[(loop, node.lineno)] = k + 1
                    s2.trace.append(Eff("loopexit", node, mod, loop=loop, n=k + 1, iter=None, broke=True))
                    yield s2, None
                else:
                    yield s2, out2

    # ---- try ---------------------------------------------------------
    def st_Try(self, node, st):
        has_handlers = bool(node.handlers)
        if has_handlers:
            st.try_depth += 1
        for s1, out in self.exec_block(node.body, st):
            if has_handlers:
                s1.try_depth -= 1
            if out is not None and out[0] == "raise" and has_handlers:
                yield from self._dispatch_exc(node, out[1], s1)
            elif out is None:
                for s2, out2 in self.exec_block(node.orelse, s1):
                    yield from self._finally(node, s2, out2)
            else:
                yield from self._finally(node, s1, out)

    def _finally(self, node, st, out):
        if not node.finalbody:
            yield st, out
            return
        for s1, out2 in self.exec_block(node.finalbody, st):
            yield s1, (out2 if out2 is not None else out)

    def _dispatch_exc(self, node, exc, st: St):
        mod = st.frame.mod
        remaining = [st]
        for h in node.handlers:
            nxt = []
            for s in remaining:
                m = self._handler_matches(h, exc, s)
                if m == "yes":
                    yield from self._run_handler(node, h, exc, s)
                elif m == "maybe":
                    s_no = s.fork()
                    yield from self._run_handler(node, h, exc, s)
                    nxt.append(s_no)
                else:
                    nxt.append(s)
            remaining = nxt
        for s in remaining:
            yield from self._finally(node, s, ("raise", exc))

    def _run_handler(self, node, h, exc, st):
        st.trace.append(Eff("except", h, st.frame.mod, exc=exc))
        if h.name:
            st.frame.env[h.name] = exc
        for s1, out in self.exec_block(h.body, st):
            yield from self._finally(node, s1, out)

    def _handler_matches(self, h, exc, st):
        if h.type is None:
            return "yes"
        names = []
        elts = h.type.elts if isinstance(h.type, ast.Tuple) else [h.type]
        for e in elts:
            dn = dotted_name(e)
            names.append(dn.split(".")[-1] if dn else "?")
        if "Exception" in names or "BaseException" in names:
            return "yes"
        known = _exc_type_name(exc)
        if known is not None:
            return "yes" if known in names else "no"
        return "maybe"

    # ==================================================================
    # expressions
    def eval_seq(self, nodes, st):
        if not nodes:
            yield st, []
            return
        for s1, t in self.eval(nodes[0], st):
            if is_raise(t):
                yield s1, t
                continue
            for s2, rest in self.eval_seq(nodes[1:], s1):
                if is_raise(rest):
                    yield s2, rest
                else:
                    yield s2, [t] + rest

    def eval(self, node, st: St):
        m = getattr(self, "ex_" + type(node).__name__, None)
        if m is None:
            yield st, self._opaque(node, st)
            return
        yield from m(node, st)

    def _opaque(self, node, st, head="opaque"):
        deps = []
        bound = set()
        for n in ast.walk(node):
            if isinstance(n, ast.comprehension):
                tmp = set()
                from .loader import _target_names
                _target_names(n.target, tmp)
                bound |= tmp
            elif isinstance(n, ast.Lambda):
                bound |= {a.arg for a in n.args.args}
        for n in ast.walk(node):
            if isinstance(n, ast.Name) and isinstance(n.ctx, ast.Load) and n.id not in bound:
                t = self.lookup(n.id, st)
                if t not in deps:
                    deps.append(t)
        try:
            text = ast.unparse(node)
        except Exception:
            text = type(node).__name__
        return (head, text[:80], tuple(deps))

    def ex_Constant(self, node, st):
        yield st, const(node.value)

    def ex_Name(self, node, st):
        yield st, self.lookup(node.id, st)

    def ex_JoinedStr(self, node, st):
        # f-strings made of plain {name} fields and literal text become ('fstr', part...) terms
        vals = []
        for v in node.values:
            if isinstance(v, ast.Constant):
                vals.append(v)
            elif isinstance(v, ast.FormattedValue) and v.conversion == -1 and v.format_spec is None:
                vals.append(v.value)
            else:
                yield st, self._opaque(node, st)
                return
        for s1, ts in self.eval_seq(vals, st):
            yield s1, (ts if is_raise(ts) else ("fstr",) + tuple(ts))

    def ex_Lambda(self, node, st):
        yield st, ("lambda", node, st.frame.mod)

    def ex_ListComp(self, node, st):
        """A comprehension is ('comp', text, deps, elt term, (iterable terms...)): the element expression is evaluated
        once with the targets bound to ('compvar', uid, name); effects inside it are not recorded."""
        if isinstance(node, ast.DictComp):
            d = self._unroll_dictcomp(node, st)
            if d is not None:
                yield st, d
                return
        base = self._opaque(node, st, "comp")
        try:
            s2 = st.fork()
            uid = s2.new_uid()
            iters = []
            comp_info = []
            from .loader import _target_names
            for g in node.generators:
                its = list(self.eval(g.iter, s2))
                if len(its) != 1 or is_raise(its[0][1]):
                    raise ValueError
                s2, it = its[0]
                iters.append(it)
                names = set()
                _target_names(g.target, names)
                comp_info.append((ast.unparse(g.target), it))
                if isinstance(g.target, ast.Name):
                    s2.frame.env[g.target.id] = ("compvar", uid, g.target.id)
                else:
                    for nme in names:
                        s2.frame.env[nme] = ("compvar", uid, nme)
            elt = node.elt if not isinstance(node, ast.DictComp) else node.value
            n0 = len(s2.trace)
            res = list(self.eval(elt, s2))
            if len(res) > 1 and len(res) <= 32 and not any(is_raise(t) for _, t in res):
                # the element is computed along several paths (a formatter with a case analysis): the alternatives are
                # kept, each with the decisions that select it; an alternative with effects is not representable
                alts = []
                for s3, t in res:
                    if any(e.k in ("emit", "store", "ucall", "mutate", "substore", "subdel", "attrstore", "nonlocal", "topo")
                           or (e.k == "call" and e.d.get("unresolved")) for e in s3.trace[n0:]):
                        raise ValueError
                    alts.append(("alt", tuple((e.test, e.outcome) for e in s3.trace[n0:] if e.k == "decision"), t))
                st.uid = max(st.uid, max(s3.uid for s3, _ in res))
                yield st, base + (("alts",) + tuple(alts), tuple(iters))
                return
            if len(res) != 1 or is_raise(res[0][1]):
                raise ValueError
            # effects of the element expression happen once per element: they are recorded once, marked in_comp
            s3 = res[0][0]
            for e in s3.trace[n0:]:
                if e.k in ("emit", "store", "ucall", "call", "mutate", "substore", "subdel", "attrstore", "nonlocal", "topo"):
                    st.trace.append(Eff(e.k, e.node, e.mod, **dict(e.d, in_comp=uid, comp_iters=tuple(comp_info))))
            st.uid = max(st.uid, s3.uid)
            yield st, base + (res[0][1], tuple(iters))
        except Exception:
            yield st, base

    ex_SetComp = ex_DictComp = ex_GeneratorExp = ex_ListComp

    def _unroll_dictcomp(self, node, st):
        """{k: v for targets in <literal tuple of rows> if cond}: the table is built row by row when every filter is
        decided (by constants, bound factory parameters or the configuration); None otherwise."""
        if len(node.generators) != 1 or node.generators[0].is_async:
            return None
        g = node.generators[0]
        try:
            s2 = st.fork()
            its = list(self.eval(g.iter, s2))
            if len(its) != 1 or is_raise(its[0][1]):
                return None
            s2, it = its[0]
            if it[0] not in ("tuple", "list") or any(x[0] == "star" for x in it[1:]):
                return None
            keys, vals = [], []
            n0 = len(s2.trace)
            failed = False
            for row in it[1:]:
                outs = list(self._assign(g.target, row, s2, node))
                if len(outs) != 1 or outs[0][1] is not None:
                    return None
                s2 = outs[0][0]
                keep = True
                for cond in g.ifs:
                    bs = list(self.truth(cond, s2))
                    if len(bs) != 1 or is_raise(bs[0][1]):
                        # undecided: the table cannot be built; the remaining rows are still scanned so that every
                        # configuration parameter the filters test is recorded as undecided (discovery of the space)
                        failed = True
                        s2 = bs[0][0] if bs else s2
                        keep = False
                        break
                    s2, b = bs[0]
                    if not b:
                        keep = False
                        break
                if not keep:
                    continue
                kv = list(self.eval_seq([node.key, node.value], s2))
                if len(kv) != 1 or is_raise(kv[0][1]):
                    return None
                s2, (k, v) = kv[0]
                keys.append(k)
                vals.append(v)
            if failed:
                return None
            for e in s2.trace[n0:]:
                if e.k == "call" and e.func[0] == "glob":
                    st.trace.append(e)
                elif e.k not in ("assign",):
                    return None
            return ("dict",) + tuple(keys) + tuple(vals)
        except AnalysisError:
            return None

    def ex_Tuple(self, node, st):
        for s1, ts in self.eval_seq(list(node.elts), st):
            yield s1, (ts if is_raise(ts) else ("tuple",) + tuple(ts))

    def ex_List(self, node, st):
        for s1, ts in self.eval_seq(list(node.elts), st):
            yield s1, (ts if is_raise(ts) else ("list",) + tuple(ts))

    def ex_Set(self, node, st):
        for s1, ts in self.eval_seq(list(node.elts), st):
            yield s1, (ts if is_raise(ts) else ("set",) + tuple(ts))

    def ex_Dict(self, node, st):
        nodes = [k for k in node.keys if k is not None] + list(node.values)
        for s1, ts in self.eval_seq(nodes, st):
            yield s1, (ts if is_raise(ts) else ("dict",) + tuple(ts))

    def ex_Starred(self, node, st):
        for s1, t in self.eval(node.value, st):
            yield s1, (t if is_raise(t) else ("star", t))

    def ex_Attribute(self, node, st):
        if isinstance(node.value, ast.Name):
            h = self._holder(node.value.id, st, "attr")
            if h is not None:
                key = ("%s.%s" % (node.value.id, node.attr), h[0])
                yield st, (st.heap[key] if key in st.heap else ("free", key[0], h[0]))
                return
        for s1, b in self.eval(node.value, st):
            if is_raise(b):
                yield s1, b
                continue
            if b == EV and s1.kind in EVENT_FIELDS and node.attr not in EVENT_FIELDS[s1.kind] and node.attr not in NAMEDTUPLE_ATTRS:
                # OnErrorMux has no item, OnCompletedMux no error, ...: AttributeError when such an event arrives
                s1.trace.append(Eff("badfield", node, s1.frame.mod, field=node.attr, kind=s1.kind))
            yield s1, self._getattr(b, node.attr, s1)

    def _getattr(self, b, attr, st):
        if b[0] == "glob":
            # continue the resolution through package attributes
            dotted = b[1] + "." + attr
            root = dotted.split(".")[0]
            if root in self.program.modules or b[1] in self.program.modules:
                ref = self._resolve_abs(dotted)
                if ref is not None:
                    return self._ref_term(ref, dotted)
            return ("glob", dotted)
        return ("attr", b, attr)

    def _resolve_abs(self, dotted):
        parts = dotted.split(".")
        # longest module prefix
        for k in range(len(parts), 0, -1):
            name = ".".join(parts[:k])
            if name in self.program.modules:
                cur = ("module", name)
                for p in parts[k:]:
                    cur = self.program._getattr(cur, p, 0)
                return cur
        return None

    def ex_Subscript(self, node, st):
        if isinstance(node.value, ast.Name) and isinstance(node.slice, ast.Constant) and node.slice.value == 0 and not isinstance(node.slice.value, bool):
            h = self._holder(node.value.id, st, "item")
            if h is not None:
                key = ("%s[0]" % node.value.id, h[0])
                yield st, (st.heap[key] if key in st.heap else ("free", key[0], h[0]))
                return
        for s1, ts in self.eval_seq([node.value, node.slice], st):
            if is_raise(ts):
                yield s1, ts
                continue
            b, i = ts
            if b == EV and i[0] == "const" and isinstance(i[1], int) and not isinstance(i[1], bool) and s1.kind in EVENT_FIELDS \
                    and -len(EVENT_FIELDS[s1.kind]) <= i[1] < len(EVENT_FIELDS[s1.kind]):
                yield s1, ("attr", EV, EVENT_FIELDS[s1.kind][i[1]])
                continue
            if b[0] == "dict":
                hit = self._dict_lookup(b, i, s1)
                if hit is not None and hit[0]:
                    yield s1, hit[1]
                    continue
            if b[0] in ("tuple", "list") and i[0] == "const" and isinstance(i[1], int) and not isinstance(i[1], bool) \
                    and -len(b) + 1 <= i[1] < len(b) - 1 and not any(x[0] == "star" for x in b[1:]):
                yield s1, b[1 + i[1]] if i[1] >= 0 else b[len(b) + i[1]]
            elif _mutable_root(b):
                yield s1, ("sub", b, i, s1.epoch)
            else:
                yield s1, ("sub", b, i)

    def ex_Slice(self, node, st):
        nodes = [n for n in (node.lower, node.upper, node.step) if n is not None]
        for s1, ts in self.eval_seq(nodes, st):
            if is_raise(ts):
                yield s1, ts
                continue
            it = iter(ts)
            lo = next(it) if node.lower is not None else None
            hi = next(it) if node.upper is not None else None
            step = next(it) if node.step is not None else None
            yield s1, ("slice", lo, hi) if step is None else ("slice", lo, hi, step)

    def ex_BinOp(self, node, st):
        for s1, ts in self.eval_seq([node.left, node.right], st):
            yield s1, (ts if is_raise(ts) else ("binop", type(node.op).__name__, ts[0], ts[1]))

    def ex_UnaryOp(self, node, st):
        for s1, t in self.eval(node.operand, st):
            if is_raise(t):
                yield s1, t
            elif isinstance(node.op, ast.Not):
                yield s1, ("not", t)
            elif isinstance(node.op, ast.USub) and t[0] == "const" and isinstance(t[1], (int, float)):
                yield s1, const(-t[1])
            else:
                yield s1, ("unop", type(node.op).__name__, t)

    def ex_BoolOp(self, node, st):
        for s1, ts in self.eval_seq(list(node.values), st):
            yield s1, (ts if is_raise(ts) else ("boolop", "and" if isinstance(node.op, ast.And) else "or") + tuple(ts))

    def ex_Compare(self, node, st):
        for s1, ts in self.eval_seq([node.left] + list(node.comparators), st):
            if is_raise(ts):
                yield s1, ts
                continue
            parts = []
            for k, op in enumerate(node.ops):
                parts.append(("cmp", CMP_NAMES[type(op)], ts[k], ts[k + 1]))
            yield s1, parts[0] if len(parts) == 1 else ("boolop", "and") + tuple(parts)

    def ex_IfExp(self, node, st):
        for s1, b in self.truth(node.test, st):
            if is_raise(b):
                yield s1, b
            elif b:
                yield from self.eval(node.body, s1)
            else:
                yield from self.eval(node.orelse, s1)

    def ex_NamedExpr(self, node, st):
        for s1, t in self.eval(node.value, st):
            if not is_raise(t):
                s1.frame.env[node.target.id] = t
            yield s1, t

    def ex_Await(self, node, st):
        yield from self.eval(node.value, st)

    def ex_Yield(self, node, st):
        if node.value is None:
            st.trace.append(Eff("yield", node, st.frame.mod, value=const(None), frm=False))
            yield st, const(None)
            return
        for s1, t in self.eval(node.value, st):
            if not is_raise(t):
                s1.trace.append(Eff("yield", node, s1.frame.mod, value=t, frm=False))
                t = const(None)
            yield s1, t

    def ex_YieldFrom(self, node, st):
        for s1, t in self.eval(node.value, st):
            if not is_raise(t):
                s1.trace.append(Eff("yield", node, s1.frame.mod, value=t, frm=True))
                t = const(None)
            yield s1, t

    # ---- tests -------------------------------------------------------
    def truth(self, node, st: St):
        """Yield (state, bool) for a test in control position."""
        if isinstance(node, ast.BoolOp):
            is_and = isinstance(node.op, ast.And)
            yield from self._truth_chain(list(node.values), is_and, st)
            return
        if isinstance(node, ast.UnaryOp) and isinstance(node.op, ast.Not):
            for s1, b in self.truth(node.operand, st):
                yield s1, (b if is_raise(b) else (not b))
            return
        if isinstance(node, ast.Compare) and len(node.ops) > 1:
            # a < b < c  ==  a < b and b < c
            vals = []
            left = node.left
            for op, right in zip(node.ops, node.comparators):
                vals.append(ast.copy_location(ast.Compare(left=left, ops=[op], comparators=[right]), node))
                left = right
            yield from self._truth_chain(vals, True, st)
            return
        for s1, t in self.eval(node, st):
            if is_raise(t):
                yield s1, t
                continue
            yield from self.decide(t, s1, node)

    def _truth_chain(self, values, is_and, st):
        first, rest = values[0], values[1:]
        for s1, b in self.truth(first, st):
            if is_raise(b) or not rest:
                yield s1, b
            elif b == is_and:
                yield from self._truth_chain(rest, is_and, s1)
            else:
                yield s1, b

    def decide(self, t, st: St, node):
        c = self.const_truth(t, st)
        if c is not None:
            yield st, c
            return
        if t[0] == "not":
            for s1, b in self.decide(t[1], st, node):
                yield s1, (not b)
            return
        if t[0] == "call" and t[1] == ("builtin", "bool") and len(t[2]) == 1 and t[2][0][0] != "kw":
            yield from self.decide(t[2][0], st, node)
            return
        if t[0] == "ifexp":
            for s1, b in self.decide(t[1], st, node):
                yield from self.decide(t[2] if b else t[3], s1, node)
            return
        if t[0] == "boolop":
            # value-position boolop reaching a test (e.g. through a variable)
            is_and = t[1] == "and"
            def chain(k, s):
                for s1, b in self.decide(t[k], s, node):
                    if k == len(t) - 1 or b != is_and:
                        yield s1, b
                    else:
                        yield from chain(k + 1, s1)
            yield from chain(2, st)
            return
        if t[0] == "cmp" and t[1] in ("Is", "IsNot", "Eq", "NotEq"):
            # flag is True / flag is False  where flag is itself a test kept in a variable (dropped = a is True and type(i) is X)
            for x, c in ((t[2], t[3]), (t[3], t[2])):
                if c[0] == "const" and isinstance(c[1], bool) and _boolean_valued(x):
                    want = c[1] if t[1] in ("Is", "Eq") else (not c[1])
                    for s1, b in self.decide(x, st, node):
                        yield s1, (b == want)
                    return
        if t in st.memo:
            yield st, st.memo[t]
            return
        neg = _negated(t)
        if neg is not None and neg in st.memo:
            yield st, (not st.memo[neg])
            return
        s2 = st.fork()
        st.memo[t] = True
        st.trace.append(Eff("decision", node, st.frame.mod, test=t, outcome=True))
        yield st, True
        s2.memo[t] = False
        s2.trace.append(Eff("decision", node, s2.frame.mod, test=t, outcome=False))
        yield s2, False

    def const_truth(self, t, st: St):
        h = t[0]
        if h == "const":
            return bool(t[1])
        if h == "not":
            c = self.const_truth(t[1], st)
            return None if c is None else (not c)
        if h == "param" or h == "kindcls" or h == "func" or h == "lambda":
            if h == "param":
                v = st.config.get(t[1])
                if v is not None:
                    return v in ("True", "Obj")
                self.undecided.setdefault(t[1], set()).add("truth")
                return None
            return True
        if h in ("tuple", "list") and len(t) == 1:
            return False
        if h == "call" and t[1] == ("builtin", "isinstance") and len(t[2]) == 2 and t[2][1] == ("builtin", "type"):
            x = t[2][0]
            if x[0] == "builtin" and x[1] in TYPE_BUILTINS:
                return True
            if x[0] == "const":
                return False
            return None
        if h == "call" and t[1] == ("builtin", "isinstance") and len(t[2]) == 2 and t[2][0] == EV and st.kind is not None:
            ks = _kind_set(t[2][1])
            if ks is not None:
                return st.kind in ks
            return None
        if h == "cmp":
            op, a, b = t[1], t[2], t[3]
            # kind tests
            if st.kind is not None:
                for x, y in ((a, b), (b, a)):
                    if x == ("call", ("builtin", "type"), (EV,)):
                        if op in ("Is", "Eq", "IsNot", "NotEq"):
                            ks = _kind_set(y) if y[0] == "kindcls" else None
                            if ks is not None:
                                r = st.kind in ks
                                return r if op in ("Is", "Eq") else (not r)
                        if op in ("In", "NotIn") and x is a:
                            ks = _kind_set(y)
                            if ks is not None:
                                r = st.kind in ks
                                return r if op == "In" else (not r)
            if op in ("In", "NotIn") and b[0] in ("list", "tuple", "set") and _concrete(a) and all(_concrete(x) for x in b[1:]):
                hit = any(self.const_truth(("cmp", "Eq", a, x), st) for x in b[1:])
                if all(self.const_truth(("cmp", "Eq", a, x), st) is not None for x in b[1:]):
                    return hit if op == "In" else (not hit)
            if op in ("In", "NotIn") and b[0] == "dict":
                hit = self._dict_lookup(b, a, st)
                if hit is not None:
                    return hit[0] if op == "In" else (not hit[0])
            # configuration tests
            for x, y in ((a, b), (b, a)):
                if x[0] == "param" and x[1] not in st.config and y[0] == "const" and op in ("Is", "IsNot", "Eq", "NotEq") \
                        and (y[1] is None or y[1] is True or y[1] is False):
                    self.undecided.setdefault(x[1], set()).add("none" if y[1] is None else "bool")
                if x[0] == "param" and x[1] in st.config and y[0] == "const" and op in ("Is", "IsNot", "Eq", "NotEq"):
                    v = st.config[x[1]]
                    cv = y[1]
                    if v == "Falsy" and op in ("Eq", "NotEq") and cv is not None:
                        return None      # an explicit falsy value (0, '', False): 0 == False holds, '' == False does not
                    if cv is True:
                        r = v == "True"
                    elif cv is False:
                        r = v == "False"
                    elif cv is None:
                        r = v == "None"
                    else:
                        return None
                    return r if op in ("Is", "Eq") else (not r)
            if op in ("Is", "IsNot", "Eq", "NotEq"):
                for x, y in ((a, b), (b, a)):
                    if y == ("const", None) and x[0] in ("list", "tuple", "dict", "set", "mkevent", "fstr", "func", "lambda", "kindcls", "partial", "replace"):
                        return op in ("IsNot", "NotEq")
                    # type(<a builtin class>) is type / type(<a constant>) is <its class>
                    if x[0] == "call" and x[1] == ("builtin", "type") and len(x[2]) == 1 and y[0] == "builtin":
                        z = x[2][0]
                        if z[0] == "builtin" and z[1] in TYPE_BUILTINS:
                            return (y[1] == "type") == (op in ("Is", "Eq"))
                        if z[0] == "const":
                            return (type(z[1]).__name__ == y[1]) == (op in ("Is", "Eq"))
            if a[0] == "const" and b[0] == "const":
                try:
                    return _fold_cmp(op, a[1], b[1])
                except Exception:
                    return None
            if op in ("Is", "IsNot", "Eq", "NotEq") and a != b and {a[0], b[0]} <= {"const", "builtin"} and "builtin" in (a[0], b[0]) \
                    and all(x[0] == "const" or x[1] in TYPE_BUILTINS for x in (a, b)):
                return op in ("IsNot", "NotEq")      # a type object is never a constant, nor another type
            if a == b and _pure(a):
                # identity is reflexive for every object; equality and order are reflexive only for values that are not user
                # data (a user value may be NaN, or an object whose __eq__ says otherwise: x != x can hold)
                if op == "Is":
                    return True
                if op == "IsNot":
                    return False
                if _reflexive_eq(a):
                    if op in ("Eq", "LtE", "GtE"):
                        return True
                    if op in ("NotEq", "Lt", "Gt"):
                        return False
        return None

    # ---- calls -------------------------------------------------------
    def ex_Call(self, node, st: St):
        f = node.func
        argnodes = list(node.args) + [k.value for k in node.keywords]
        if isinstance(f, ast.Attribute):
            for s1, ts in self.eval_seq([f.value] + argnodes, st):
                if is_raise(ts):
                    yield s1, ts
                    continue
                base = ts[0]
                args, kwargs = self._split_args(node, ts[1:])
                if base[0] == "glob":
                    ft = self._getattr(base, f.attr, s1)
                    yield from self.apply_func(node, ft, args, kwargs, s1)
                else:
                    yield from self.apply_method(node, base, f.attr, args, kwargs, s1)
        else:
            for s1, ts in self.eval_seq([f] + argnodes, st):
                if is_raise(ts):
                    yield s1, ts
                    continue
                args, kwargs = self._split_args(node, ts[1:])
                yield from self.apply_func(node, ts[0], args, kwargs, s1)

    def _split_args(self, node, ts):
        n = len(node.args)
        args = list(ts[:n])
        kwargs = []
        for k, t in zip(node.keywords, ts[n:]):
            kwargs.append((k.arg if k.arg is not None else "**", t))
        return args, kwargs

    def _may_raise(self, st, eff: Eff, result):
        """Yield the normal continuation and, inside a try body, the raising one."""
        if st.try_depth > 0:
            s2 = st.fork()
            st.trace.append(eff)
            yield st, result
            e2 = Eff(eff.k, eff.node, eff.mod, **dict(eff.d, raised=True))
            s2.trace.append(e2)
            yield s2, ("!raise", ("exc", s2.new_uid()))
        else:
            st.trace.append(eff)
            yield st, result

    def apply_method(self, node, base, attr, args, kwargs, st: St):
        mod = st.frame.mod
        allargs = args + [("kw", k, v) for k, v in kwargs]
        if attr in ("on_next", "on_error", "on_completed") and base[0] != "glob":
            arg = args[0] if args else (kwargs[0][1] if kwargs else None)
            eff = Eff("emit", node, mod, target=base, method=attr, arg=arg)
            yield from self._may_raise(st, eff, const(None))
            return
        if base[0] == "attr" and base[1] == EV and base[2] == "key" and attr not in ("index", "count"):
            # the key of an event is a tuple: it has no such method
            st.trace.append(Eff("badfield", node, mod, field="key.%s()" % attr, kind=st.kind))
        if base[0] == "kindcls" and attr not in ("_make", "_replace", "_fields", "_asdict"):
            # a method added to an event class (OnErrorMux.from_item(i, e)): what it builds is not followed
            uid = st.new_uid()
            res = ("mcall", base, attr, tuple(allargs), uid)
            eff = Eff("call", node, mod, func=("attr", base, attr), args=allargs, result=res, method=attr, base=base, unresolved=True)
            yield from self._may_raise(st, eff, res)
            return
        if base == EVSTORE and attr == "get_state" and len(args) + len(kwargs) == 3 and (len(args) == 3 or (kwargs and kwargs[-1][0] == "default")):
            # get_state(state, key, default): the one extension of the store API the model follows -- the stored value, or `default` when
            # the slot reads NOTSET (MS-3 checks that MemoryStore.get, given a default parameter, returns exactly that on the NOTSET path)
            vals = args + [v for _, v in kwargs]
            state, key, dflt = vals[0], vals[1], vals[2]
            uid = st.new_uid()
            res = ("store", attr, state, key, (), uid)
            eff = Eff("store", node, mod, op=attr, args=vals[:2], state=state, key=key, extra=(), result=res)
            for s1, r1 in self._may_raise(st, eff, res):
                if is_raise(r1):
                    yield s1, r1
                    continue
                mk = self.program.module("rxsci/state/markers.py")
                test = ("cmp", "Is", res, self._global_term(mk, "STATE_NOTSET"))
                s2 = s1.fork()
                s1.memo[test] = True          # the handler's own `is STATE_NOTSET` test on this value is already decided
                s1.trace.append(Eff("decision", node, mod, test=test, outcome=True))
                yield s1, dflt
                s2.memo[test] = False
                s2.trace.append(Eff("decision", node, mod, test=test, outcome=False))
                yield s2, res
            return
        if base == EVSTORE and attr in STORE_OPS and len(args) + len(kwargs) > STORE_ARITY[attr]:
            # an argument the store model does not know (the store API has grown): not followed, recorded as unresolved
            uid = st.new_uid()
            res = ("mcall", base, attr, tuple(allargs), uid)
            eff = Eff("call", node, mod, func=("attr", base, attr), args=allargs, result=res, method=attr, base=base, unresolved=True)
            yield from self._may_raise(st, eff, res)
            return
        if base == EVSTORE and attr in STORE_OPS:
            uid = st.new_uid()
            vals = args + [v for _, v in kwargs]
            state = vals[0] if vals else None
            key = vals[1] if len(vals) > 1 else None
            res = ("store", attr, state, key, tuple(vals[2:]), uid)
            eff = Eff("store", node, mod, op=attr, args=vals, state=state, key=key, extra=tuple(vals[2:]), result=res)
            if attr in ("add_key", "del_key", "set_state", "add_map", "del_map"):
                st.epoch += 1
            yield from self._may_raise(st, eff, res)
            return
        if base == EVSTORE and attr not in STORE_OPS and not attr.startswith("__"):
            # an operation of the store the model does not know (a method added to the store API): what the handler reads or writes through it
            # cannot be told; the call is recorded as unresolved so that no finding on this path is taken for a verdict
            uid = st.new_uid()
            res = ("mcall", base, attr, tuple(allargs), uid)
            eff = Eff("call", node, mod, func=("attr", base, attr), args=allargs, result=res, method=attr, base=base, unresolved=True)
            yield from self._may_raise(st, eff, res)
            return
        if base == EVTOPO and attr in TOPO_OPS:
            uid = st.new_uid()
            kw = list(kwargs)
            names = ["name", "data_type", "default_value"]
            for k, a in enumerate(args):
                kw.append((names[k] if k < len(names) else "arg%d" % k, a))
            res = ("stateid", attr, uid)
            st.trace.append(Eff("topo", node, mod, op=attr, kwargs=kw, result=res))
            yield st, res
            return
        if attr == "_replace":
            yield st, ("replace", base, tuple(kwargs))
            return
        if base[0] == "dict" and attr == "get" and args and not kwargs:
            hit = self._dict_lookup(base, args[0], st)
            if hit is not None:
                yield st, (hit[1] if hit[0] else (args[1] if len(args) > 1 else const(None)))
                return
        if base[0] == "arg" and self.inline:
            # self.method(...) inside a class: inline the sibling method
            meth = self._sibling_method(st, base, attr)
            if meth is not None:
                active = [f.fn for f in st.frames]
                if len(st.frames) <= MAX_INLINE_DEPTH and meth not in active and not _is_generator(meth):
                    yield from self._inline(node, meth, mod, [base] + args, kwargs, st)
                    return
        if attr in MUTATORS and base[0] not in ("glob", "builtin"):
            uid = st.new_uid()
            st.epoch += 1
            res = ("mcall", base, attr, tuple(allargs), uid)
            eff = Eff("mutate", node, mod, base=base, method=attr, args=allargs, result=res)
            yield from self._may_raise(st, eff, res)
            return
        uid = st.new_uid()
        res = ("mcall", base, attr, tuple(allargs), uid)
        eff = Eff("call", node, mod, func=("attr", base, attr), args=allargs, result=res, method=attr, base=base)
        if attr in ("subscribe", "subscribe_"):
            # the locals of the subscribe function at the moment it subscribes its handlers
            eff.d["env"] = dict(st.frames[0].env)
            eff.d["env_owner"] = st.frames[0].name
        yield from self._may_raise(st, eff, res)

    def apply_func(self, node, ft, args, kwargs, st: St):
        mod = st.frame.mod
        allargs = args + [("kw", k, v) for k, v in kwargs]
        h = ft[0]
        if h == "kindcls":
            K = ft[1]
            fields = EVENT_FIELDS[K]
            vals = {}
            for k, a in enumerate(args):
                if k < len(fields):
                    vals[fields[k]] = a
            for k, v in kwargs:
                vals[k] = v
            if K == "Probe":
                yield st, ("mkevent", K, None, vals.get("topology"), None)
            else:
                payload = vals.get("item") if K == "Next" else vals.get("error")
                yield st, ("mkevent", K, vals.get("key"), payload, vals.get("store", const(None)))
            return
        if h == "partial":
            bound_pos = [a for a in ft[2] if not (isinstance(a, tuple) and a and a[0] == "kw")]
            bound_kw = [(a[1], a[2]) for a in ft[2] if isinstance(a, tuple) and a and a[0] == "kw"]
            given = {k for k, _ in kwargs}
            yield from self.apply_func(node, ft[1], bound_pos + args, [kv for kv in bound_kw if kv[0] not in given] + list(kwargs), st)
            return
        if h == "attr":
            # a bound method held in a variable (convert = getattr(codec, 'encode'); emit = observer.on_next)
            yield from self.apply_method(node, ft[1], ft[2], args, kwargs, st)
            return
        if h == "methodcaller" and len(args) == 1 and not kwargs:
            yield from self.apply_method(node, args[0], ft[1], list(ft[2]), [], st)
            return
        if h == "attrgetter" and len(args) == 1 and not kwargs:
            yield st, self._getattr(args[0], ft[1], st)
            return
        if h == "param":
            uid = st.new_uid()
            res = ("ucall", ft[1], tuple(allargs), uid)
            eff = Eff("ucall", node, mod, name=ft[1], owner=ft[2], args=allargs, result=res)
            yield from self._may_raise(st, eff, res)
            return
        if h == "func":
            fn, fmod = ft[1], ft[2]
            active = [f.fn for f in st.frames]
            if self.inline and len(st.frames) <= MAX_INLINE_DEPTH and fn not in active and not _is_generator(fn) \
                    and fn not in getattr(self, "no_inline", ()) \
                    and (getattr(self, "only_inline", None) is None or fn in self.only_inline):
                yield from self._inline(node, fn, fmod, args, kwargs, st)
                return
        if h == "lambda" and self.inline and len(st.frames) <= MAX_INLINE_DEPTH and ft[1] not in [f.fn for f in st.frames]:
            lam, lmod = ft[1], ft[2]
            sc = lmod.scopes.get(lam)
            if sc is not None:
                env = {}
                pos = [x.arg for x in lam.args.posonlyargs] + [x.arg for x in lam.args.args]
                plain = [x for x in args if x[0] != "star"]
                if len(plain) == len(args) and len(plain) <= len(pos) and not lam.args.vararg:
                    for k, t in enumerate(plain):
                        env[pos[k]] = t
                    for k, v in kwargs:
                        if k != "**":
                            env[k] = v
                    defaults = dict(zip(pos[len(pos) - len(lam.args.defaults):], lam.args.defaults))
                    okp = True
                    for p_ in sc.params:
                        if p_ not in env:
                            d = defaults.get(p_)
                            if isinstance(d, ast.Constant):
                                env[p_] = const(d.value)
                            else:
                                okp = False
                    if okp:
                        st.frames.append(Frame(lam, lmod, env, sc.qualname))
                        for s1, t in self.eval(lam.body, st):
                            s1.frames.pop()
                            yield s1, t
                        return
        if h == "builtin":
            if ft[1] == "getattr" and len(args) == 2 and not kwargs and args[1][0] == "const" and isinstance(args[1][1], str):
                yield st, self._getattr(args[0], args[1][1], st)
                return
            if ft[1] == "divmod" and len(args) == 2 and not kwargs:
                yield st, ("tuple", ("binop", "FloorDiv", args[0], args[1]), ("binop", "Mod", args[0], args[1]))
                return
            if ft[1] in PURE_BUILTINS:
                if ft[1] == "len":
                    yield st, ("call", ft, tuple(allargs), ("epoch", st.epoch))
                else:
                    yield st, ("call", ft, tuple(allargs))
                return
            if ft[1] in SILENT_BUILTINS:
                yield st, const(None)
                return
        if h == "glob":
            if ft[1] == "functools.partial" and args:
                yield st, ("partial", args[0], tuple(args[1:]) + tuple(("kw", k, v) for k, v in kwargs))
                return
            if ft[1] in OPERATOR_CMP and len(args) == 2 and not kwargs:
                yield st, ("cmp", OPERATOR_CMP[ft[1]], args[0], args[1])
                return
            if ft[1] in OPERATOR_BIN and len(args) == 2 and not kwargs:
                yield st, ("binop", OPERATOR_BIN[ft[1]], args[0], args[1])
                return
            if ft[1] == "operator.methodcaller" and args and args[0][0] == "const" and not kwargs:
                yield st, ("methodcaller", args[0][1], tuple(args[1:]))
                return
            if ft[1] == "operator.attrgetter" and len(args) == 1 and args[0][0] == "const" and not kwargs \
                    and isinstance(args[0][1], str) and "." not in args[0][1]:
                yield st, ("attrgetter", args[0][1])
                return
            last = ft[1].split(".")[-1]
            if last in PURE_BUILTINS and ft[1] in ("array.array", "collections.deque"):
                yield st, ("call", ft, tuple(allargs), st.new_uid())
                return
        uid = st.new_uid()
        res = ("call", ft, tuple(allargs), uid)
        # a function value of the repository that could not be resolved (a closure variable assigned conditionally, an
        # entry of a table indexed by a run-time value): what it does is unknown to the rules
        unresolved = h in ("free", "undef", "opaque", "sub", "ifexp", "loopvar", "compvar", "dict", "tuple", "list", "arg", "bound")
        eff = Eff("call", node, mod, func=ft, args=allargs, result=res, method=None, base=None, unresolved=unresolved)
        yield from self._may_raise(st, eff, res)

    def _dict_lookup(self, d, k, st):
        """(True, value) / (False, None) when the lookup of k in the table d is decided, None otherwise.  Tables keyed
        by event classes are decided by the event kind of the run, tables keyed by constants by a constant key."""
        n = (len(d) - 1) // 2
        keys, vals = d[1:1 + n], d[1 + n:]
        if k == ("call", ("builtin", "type"), (EV,)) and st.kind is not None and all(x[0] == "kindcls" for x in keys):
            for x, v in zip(keys, vals):
                if x[1] == st.kind:
                    return (True, v)
            return (False, None)
        if k[0] == "const" and all(x[0] == "const" for x in keys):
            for x, v in zip(keys, vals):
                if x[1] == k[1] and type(x[1]) is type(k[1]):
                    return (True, v)
            return (False, None)
        if k[0] == "kindcls" and all(x[0] == "kindcls" for x in keys):
            for x, v in zip(keys, vals):
                if x[1] == k[1]:
                    return (True, v)
            return (False, None)
        # a table keyed by types and constants ({int: 'q', 'uint': 'Q', float: 'd', bool: 'B'}) looked up with one of them
        if k[0] in ("const", "builtin") and all(x[0] in ("const", "builtin") for x in keys):
            nums = [x for x in list(keys) + [k] if x[0] == "const" and isinstance(x[1], (int, float, bool))]
            if len({type(x[1]) for x in nums}) > 1:
                return None         # 1 / 1.0 / True are one key to a dict: not decided here
            try:
                hash(k[1])
            except TypeError:
                return None
            for x, v in zip(keys, vals):
                if x == k:
                    return (True, v)
            return (False, None)
        return None

    def _sibling_method(self, st, base, attr):
        fr = st.frame
        sc = fr.mod.scopes.get(fr.fn)
        if sc is None or not sc.params or sc.params[0] != base[1]:
            return None
        cls = fr.mod.parent.get(fr.fn)
        if not isinstance(cls, ast.ClassDef):
            return None
        for n in cls.body:
            if isinstance(n, ast.FunctionDef) and n.name == attr:
                return n
        return None

    def _inline(self, node, fn, fmod, args, kwargs, st: St):
        sc = fmod.scopes[fn]
        env = {}
        a = fn.args
        pos = [x.arg for x in a.posonlyargs] + [x.arg for x in a.args]
        defaults = dict(zip(pos[len(pos) - len(a.defaults):], a.defaults))
        for x, dflt in zip(a.kwonlyargs, a.kw_defaults):
            if dflt is not None:
                defaults[x.arg] = dflt
        rest = []
        plain = [x for x in args if x[0] != "star"]
        for k, t in enumerate(plain):
            if k < len(pos):
                env[pos[k]] = t
            else:
                rest.append(t)
        if a.vararg:
            env[a.vararg.arg] = ("tuple",) + tuple(rest)
        for k, v in kwargs:
            if k != "**":
                env[k] = v
        for p in sc.params:
            if p not in env:
                d = defaults.get(p)
                if isinstance(d, ast.Constant):
                    env[p] = const(d.value)
                elif d is not None:
                    env[p] = ("opaque", "default of " + p, ())
                else:
                    env[p] = ("arg", p)
        cap = getattr(self, "capture", None)
        if cap is not None:
            for p_, t_ in env.items():
                k_ = (fmod.name, sc.qualname, p_)
                cap[k_] = t_ if cap.get(k_, t_) == t_ else ("ambiguous",)
        st.trace.append(Eff("inline", node, st.frame.mod, name=sc.qualname, fn=fn))
        st.frames.append(Frame(fn, fmod, env, sc.qualname))
        for s1, out in self.exec_block(fn.body, st):
            s1.frames.pop()
            s1.trace.append(Eff("inline_exit", node, s1.frame.mod, name=sc.qualname, fn=fn))
            if out is None:
                yield s1, const(None)
            elif out[0] == "return":
                yield s1, out[1]
            elif out[0] == "raise":
                yield s1, ("!raise", out[1])
            else:
                yield s1, const(None)


# ----------------------------------------------------------------------
TYPE_BUILTINS = {"int", "float", "bool", "str", "bytes", "list", "dict", "tuple", "set", "object", "type", "complex", "bytearray", "frozenset"}


def _literal_term(node, mod=None):
    if isinstance(node, ast.Constant):
        return const(node.value)
    if isinstance(node, ast.Name) and mod is not None and node.id in TYPE_BUILTINS and node.id not in mod.bindings:
        return ("builtin", node.id)
    if isinstance(node, ast.Tuple) and mod is not None and node.elts and not all(isinstance(e, ast.Constant) for e in node.elts):
        elts = [_literal_term(e, mod) for e in node.elts]
        return None if any(e is None for e in elts) else ("tuple",) + tuple(elts)
    if isinstance(node, ast.UnaryOp) and isinstance(node.op, ast.USub) and isinstance(node.operand, ast.Constant) \
            and isinstance(node.operand.value, (int, float)) and not isinstance(node.operand.value, bool):
        return const(-node.operand.value)
    if isinstance(node, ast.Tuple) and all(isinstance(e, ast.Constant) for e in node.elts):
        return ("tuple",) + tuple(const(e.value) for e in node.elts)
    if isinstance(node, ast.Dict) and mod is not None and node.keys and all(k is not None for k in node.keys):
        # a table of constants written as a dict display
        ks = [_literal_term(k, mod) for k in node.keys]
        vs = [_literal_term(v, mod) for v in node.values]
        if all(x is not None and x[0] in ("const", "builtin") for x in ks) and all(x is not None for x in vs):
            return ("dict",) + tuple(ks) + tuple(vs)
    return None


def _boolean_valued(t):
    """the term is a bool whatever its operands are: a comparison, a negation, isinstance / callable / bool(...), or and / or of such"""
    if t[0] in ("cmp", "not"):
        return True
    if t[0] == "call" and t[1] in (("builtin", "isinstance"), ("builtin", "callable"), ("builtin", "bool")):
        return True
    if t[0] == "boolop":
        return all(_boolean_valued(x) for x in t[2:])
    if t[0] == "const":
        return isinstance(t[1], bool)
    return False


def _module_mutates(mod, name):
    """the module changes the object bound to the global *name* in place somewhere (subscript store / del, augmented assignment, a
    mutating method), or hands it to a call (which may)"""
    for n in ast.walk(mod.tree):
        if isinstance(n, ast.Subscript) and isinstance(n.value, ast.Name) and n.value.id == name and isinstance(n.ctx, (ast.Store, ast.Del)):
            return True
        if isinstance(n, ast.AugAssign) and isinstance(n.target, ast.Name) and n.target.id == name:
            return True
        if isinstance(n, ast.Call):
            if isinstance(n.func, ast.Attribute) and isinstance(n.func.value, ast.Name) and n.func.value.id == name and n.func.attr in (
                    "update", "setdefault", "pop", "popitem", "clear", "__setitem__", "__delitem__"):
                return True
            if any(isinstance(a, ast.Name) and a.id == name for a in list(n.args) + [k.value for k in n.keywords]):
                return True
    return False


def _concrete(t):
    if t[0] in ("const", "builtin", "kindcls"):
        return True
    if t[0] == "tuple":
        return all(_concrete(x) for x in t[1:])
    return False


def _as_load(node):
    n = ast.copy_location(type(node)(**{f: getattr(node, f) for f in node._fields}), node)
    n.ctx = ast.Load()
    return n


def _is_generator(fn):
    for n in ast.walk(fn):
        if isinstance(n, (ast.Yield, ast.YieldFrom)):
            return True
    return False


def _kind_set(t):
    if t[0] == "kindcls":
        return {t[1]}
    if t[0] in ("tuple", "list", "set"):
        out = set()
        for x in t[1:]:
            if x[0] != "kindcls":
                return None
            out.add(x[1])
        return out
    return None


def _fold_cmp(op, a, b):
    if op == "Eq":
        return a == b
    if op == "NotEq":
        return a != b
    if op == "Lt":
        return a < b
    if op == "LtE":
        return a <= b
    if op == "Gt":
        return a > b
    if op == "GtE":
        return a >= b
    if op == "Is":
        return a is b
    if op == "IsNot":
        return a is not b
    if op == "In":
        return a in b
    if op == "NotIn":
        return a not in b
    raise ValueError(op)


def _reflexive_eq(t):
    """x == x certainly holds: t denotes an int / bool / str / None / tuple of such, not a value supplied by the user (an item, the
    result of a user function, a stored accumulator ...)"""
    h = t[0]
    if h in ("const", "param", "kindcls", "glob", "modvar", "builtin", "stateid", "loopvar"):
        return True
    if h == "attr":
        return t[1] == EV and t[2] == "key"
    if h == "sub":
        return _reflexive_eq(t[1]) and _reflexive_eq(t[2])
    if h in ("binop", "unop", "tuple"):
        return all(_reflexive_eq(x) for x in t[1:] if isinstance(x, tuple))
    if h == "call" and t[1] == ("builtin", "len"):
        return True
    if h == "call" and t[1][0] == "builtin" and t[1][1] in ("int", "abs", "min", "max", "divmod", "bool", "str", "type"):
        return all(_reflexive_eq(x) for x in t[2])
    return False


def _pure(t):
    for x in subterms(t):
        if x[0] in ("opaque", "comp"):
            return False
    return True


def _negated(t):
    if t[0] == "cmp" and t[1] in NEG_CMP:
        return ("cmp", NEG_CMP[t[1]], t[2], t[3])
    return None


def _mutable_root(t):
    while t[0] in ("sub", "attr"):
        t = t[1]
    return t[0] in ("free", "bound", "mcall", "call", "store", "arg", "loopvar", "undef")


def _is_test_of(node, t, st):
    # conservative: forget every memoised decision taken inside a while loop
    return True


def _exc_type_name(exc):
    if exc[0] == "call" and exc[1][0] in ("builtin", "glob", "param"):
        return exc[1][1].split(".")[-1]
    return None
