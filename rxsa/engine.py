"""Shared context, findings and the check runner."""
from __future__ import annotations

import ast
import hashlib
import json
import os
import sys
import time
import traceback
from typing import Dict, List, Optional

from .executor import Executor, HandlerSpec, Path
from .loader import AnalysisError, Program
from .model import Site, config_space, domains, find_sites, valuations
from .terms import KINDS

VERIF = os.path.dirname(os.path.dirname(os.path.abspath(__file__)))
EVIDENCE_DIR = os.environ.get("RXSA_EVIDENCE_DIR") or os.path.join(VERIF, "evidence")
KNOWN_FINDINGS = os.path.join(VERIF, "known_findings.json")


class Finding:
    def __init__(self, rule, construct, where, message, trace=None, detail=None):
        self.rule = rule
        self.construct = construct      # stable id: function + kind (+ slot), no line numbers
        self.where = where              # file:line for the reader
        self.message = message
        self.trace = trace or []
        self.detail = detail or {}

    def key(self):
        return "%s|%s" % (self.rule, self.construct)

    def to_json(self):
        return {"rule": self.rule, "construct": self.construct, "where": self.where,
                "message": self.message, "trace": self.trace, "detail": self.detail}


class RuleResult:
    def __init__(self, rule, title):
        self.rule = rule
        self.title = title
        self.instances = 0          # constructs the rule was applied to
        self.paths = 0              # control paths analysed
        self.obligations = 0
        self.discharged = 0
        self.findings: List[Finding] = []
        self.notes: List[str] = []
        self.samples: List = []
        self.assumptions: List[str] = []
        self.groups = set()         # distinct non-trivial (construct, kind, config) groups
        self.min_instances = 0

    def ob(self, ok: bool, finding_factory=None):
        """Record one obligation; finding_factory() builds the Finding when it fails."""
        self.obligations += 1
        if ok:
            self.discharged += 1
        elif finding_factory is not None:
            f = finding_factory()
            # one finding per (rule, construct): keep the first trace
            if not any(x.key() == f.key() for x in self.findings):
                self.findings.append(f)
        return ok

    def sample(self, s, limit=4):
        if len(self.samples) < limit:
            self.samples.append(s)

    def require_instances(self, n):
        self.min_instances = n
        if self.instances < n:
            raise AnalysisError("rule %s matched %d instance(s), fewer than the %d confirmed by reading "
                                "(an anchor vanished or an idiom is no longer recognised)" % (self.rule, self.instances, n))

    def summary(self):
        return {"rule": self.rule, "title": self.title, "instances": self.instances,
                "min_instances": self.min_instances, "paths": self.paths,
                "obligations": self.obligations, "discharged": self.discharged,
                "findings": len(self.findings), "notes": self.notes}


def _check_event_model(program):
    """The analysis models mux events as records with the field lists of terms.EVENT_FIELDS (positional construction,
    unpacking and indexing follow them).  The lists are re-read from the namedtuple definitions of the analysed tree on
    every run: a tree that defines the events differently is not one this model describes (exit 2, never a verdict)."""
    import ast as _ast
    from .terms import EVENT_FIELDS, KIND_CLASSES
    found = {}
    for rel in ("rxsci/mux/__init__.py", "rxsci/state/state_topology.py"):
        try:
            m = program.module(rel)
        except Exception:
            raise AnalysisError("%s vanished: the mux event classes cannot be read" % rel)
        for n in m.tree.body:
            if isinstance(n, _ast.Assign) and len(n.targets) == 1 and isinstance(n.targets[0], _ast.Name) and n.targets[0].id in KIND_CLASSES \
                    and isinstance(n.value, _ast.Call) and (getattr(n.value.func, "id", None) or getattr(n.value.func, "attr", None)) == "namedtuple" \
                    and len(n.value.args) == 2 and isinstance(n.value.args[1], (_ast.List, _ast.Tuple)):
                found[n.targets[0].id] = tuple(e.value for e in n.value.args[1].elts if isinstance(e, _ast.Constant))
    for cls, kind in KIND_CLASSES.items():
        if found.get(cls) != EVENT_FIELDS[kind]:
            raise AnalysisError("the event class %s is defined with fields %s; the analysis models it as %s" % (cls, found.get(cls), EVENT_FIELDS[kind]))


class Ctx:
    """Everything a rule needs; path sets are cached."""

    def __init__(self, program: Program = None, tier="quick"):
        self.program = program or Program()
        self.tier = tier
        self.max_iter = 1 if tier == "quick" else 2
        self.ex = Executor(self.program, max_paths=4096 if tier == "quick" else 200000)
        _check_event_model(self.program)
        self.all_sites: List[Site] = find_sites(self.program)
        self.unresolved = {}     # handler qualname -> first call of a function value that could not be resolved
        self._ext_cfg = {}
        self.extensions = {}     # function -> parameters the pinned tree did not have, analysed at their default only
        self.scope = None        # set of module paths: rules that quantify over "all sites" then only see these modules
        self._cache = {}
        self.total_paths = 0

    @property
    def sites(self) -> List[Site]:
        """Every construction site; a site that could not be modelled fails the rules that quantify over all sites
        (and only those: anchored rules consult their own module)."""
        sel = [s for s in self.all_sites if self.scope is None or s.anchor_rel in self.scope]
        for s in sel:
            if s.error:
                raise AnalysisError(s.error)
        return sel

    def scaled(self, n):
        """minimum instance count of an all-sites rule: the count confirmed by reading, 1 under a module scope"""
        return n if self.scope is None else 1

    # ---- anchors -----------------------------------------------------
    def site(self, relpath, suffix, kind=None, states=None, pick=None) -> Site:
        """The construction site anchored by *suffix* = '<factory>.<inner names...>'.

        An exact match of the inner names is not required (inner functions get renamed): the site is
        identified by the module, the outermost factory function, optionally the constructor kind
        ('mux' | 'create') and the number of state ids it creates in its Probe branch."""
        self.program.module(relpath)
        in_mod = [s for s in self.all_sites if s.anchor_rel == relpath]
        for s in in_mod:
            if s.error and (kind is None or (s.ctor != "create") == (kind == "mux")):
                raise AnalysisError(s.error)
        in_mod = [s for s in in_mod if not s.error]
        cands = [s for s in in_mod if s.short.endswith(suffix)]
        if len(cands) != 1:
            factory = suffix.split(".")[0]
            cands = [s for s in in_mod if s.short.split(".")[0] == factory]
            if not cands:
                # anchors given by an inner name only (e.g. route_to_dead_letter.on_subscribe)
                cands = [s for s in in_mod if factory in s.short.split(".")]
            if not cands:
                # the factory delegates to module-level helpers (lag -> _lag_n): sites whose outermost function is
                # referenced from the body of the factory
                import ast as _ast
                m = self.program.module(relpath)
                b = m.bindings.get(factory)
                if b is not None and b[0] == "def":
                    used = {n.id for n in _ast.walk(b[1]) if isinstance(n, _ast.Name)}
                    cands = [s for s in in_mod if s.short.split(".")[0] in used]
            if not cands:
                # last resort: the only site of that kind in the module
                cands = list(in_mod)
            if kind is not None:
                cands = [s for s in cands if (s.ctor != "create") == (kind == "mux")]
            if states is not None and len(cands) > 1:
                cands = [s for s in cands if len(self.probe_states(s)) == states]
            if pick is not None and len(cands) > 1:
                cands = [s for s in cands if pick(s)]
        if len(cands) != 1:
            raise AnalysisError("anchor %s::%s: %d construction sites found (expected 1)" % (relpath, suffix, len(cands)))
        return cands[0]

    def probe_states(self, site):
        """[(variable name, topo effect)] for the state ids a mux site creates in its Probe branch, in creation order."""
        key = ("probe", id(site))
        if key in self._cache:
            return self._cache[key]
        out = []
        for spec in site.handler_specs("on_next"):
            for kind, cfg, paths in self.all_paths(spec, kinds=("Probe",)):
                for p in paths:
                    for e in p.trace:
                        if e.k == "nonlocal" and e.value[0] == "stateid":
                            for t in p.trace:
                                if t.k == "topo" and t.result == e.value and e.name not in [n for n, _ in out]:
                                    out.append((e.name, t))
        self._cache[key] = out
        return out

    def only_state(self, site):
        st = self.probe_states(site)
        if len(st) != 1:
            raise AnalysisError("%s: expected exactly one state id, found %s" % (site.name, [n for n, _ in st]))
        return st[0][0]

    def free_def_term(self, site, name):
        """Term assigned to the local *name* of the subscribe function (single assignment), or None."""
        key = ("freedef", id(site), name)
        if key not in self._cache:
            vals = set()
            for p in self.fn_paths(site.module, site.subscribe_fn, roles=site.roles, inline=False):
                for e in p.trace:
                    if e.k == "assign" and e.name == name:
                        vals.add(e.value)
            self._cache[key] = next(iter(vals)) if len(vals) == 1 else None
        return self._cache[key]

    def handlers_for(self, site, cfg):
        """{'on_next'|'on_error'|'on_completed': ('fn', HandlerSpec) | ('forward', target term, method) | ('absent',)}
        as wired by the subscribe function *under the configuration cfg* (handlers may be defined or chosen
        conditionally at subscription time).  '_env' holds the locals of the subscribe function at that moment."""
        key = ("handlers_for", id(site), tuple(sorted(cfg.items())))
        if key in self._cache:
            return self._cache[key]
        out = {}
        order = ["on_next", "on_error", "on_completed", "scheduler"]
        spec0 = HandlerSpec(site.module, site.subscribe_fn, None, roles=site.roles, ctx=site.ctx)
        ext = self._fn_ext_cfg(site.module, site.subscribe_fn)
        for p in self.ex.run(spec0, None, dict(ext, **cfg) if ext else cfg, max_iter=self.max_iter):
            for e in p.trace:
                if e.k == "call" and e.d.get("method") in ("subscribe", "subscribe_"):
                    exprs = {}
                    pos = 0
                    for a in e.args:
                        if a[0] == "kw":
                            exprs[a[1]] = a[2]
                        else:
                            if pos < len(order):
                                exprs[order[pos]] = a
                            pos += 1
                    env = e.d.get("env", {})
                    owner = e.d.get("env_owner")
                    heap0 = {(n, owner): t for n, t in env.items()
                             if t[0] in ("func", "lambda", "partial", "methodcaller", "attrgetter")
                             or (t[0] == "attr" and t[1][0] in ("call", "mcall", "obs"))}
                    prev_env = out.get("_env")
                    if prev_env is not None and prev_env != env:
                        raise AnalysisError("%s: the subscribe function reaches its subscription with different local values on different paths of one configuration" % site.name)
                    out["_env"] = env
                    for which in ("on_next", "on_error", "on_completed"):
                        t = exprs.get(which)
                        bound = {}
                        if t is not None and t[0] == "partial":
                            fn_t = t[1]
                            if fn_t[0] == "func":
                                params = fn_t[2].scopes[fn_t[1]].params
                                for k, a_ in enumerate(t[2]):
                                    if k < len(params):
                                        bound[params[k]] = a_ if a_[0] == "obs" else ("bound", params[k])
                            t = fn_t
                        if t is None or t == ("const", None):
                            ref = ("absent",)
                        elif t[0] in ("func", "lambda"):
                            fn, fmod = t[1], t[2]
                            sc = fmod.scopes[fn]
                            posargs = [a for a in sc.params if a not in bound]
                            ev = posargs[0] if (which != "on_completed" and posargs) else None
                            hs = HandlerSpec(fmod, fn, ev, roles=site.roles, bound=bound, label=which, ctx=site.ctx)
                            hs.heap0 = heap0
                            if site.instance_of:
                                hs.instance = "%s::%s" % (site.anchor_rel, site.short.split(".")[0])
                            ref = ("fn", hs)
                        elif t[0] == "attr" and t[2] in ("on_next", "on_error", "on_completed"):
                            ref = ("forward", t[1], t[2])
                        else:
                            ref = ("unknown", t)
                        prev = out.get(which)
                        if prev is not None and prev[0] != ref[0]:
                            raise AnalysisError("%s: the %s handler is wired differently on different paths of the subscribe function for one configuration" % (site.name, which))
                        out.setdefault(which, ref)
        self._cache[key] = out
        return out

    def mux_sites(self) -> List[Site]:
        sel = [s for s in self.all_sites if s.ctor in ("mux", "muxconn") and (self.scope is None or s.anchor_rel in self.scope)]
        for s in sel:
            if s.error:
                raise AnalysisError(s.error)
        return sel

    def function(self, relpath, qualname):
        m = self.program.module(relpath)
        for fn, sc in m.scopes.items():
            if sc.qualname == qualname:
                return m, fn
        raise AnalysisError("anchor %s::%s vanished" % (relpath, qualname))

    def module_of(self, fn):
        """module that contains the function definition node fn"""
        idx = self._cache.get("module_of")
        if idx is None:
            idx = {}
            for m in self.program.by_relpath.values():
                for f in m.scopes:
                    idx[f] = m
            self._cache["module_of"] = idx
        m = idx.get(fn)
        if m is None:
            raise AnalysisError("function node not found in any module")
        return m

    def functions_named(self, relpath, name):
        m = self.program.module(relpath)
        return [(m, fn) for fn, sc in m.scopes.items() if sc.qualname.split(".")[-1] == name]

    # ---- paths -------------------------------------------------------
    def space(self, spec: HandlerSpec):
        key = ("space", id(spec.fn), spec.ctx_key)
        if key not in self._cache:
            space = config_space(self.program, spec)
            # tests on factory parameters met by the path enumeration itself (handlers reached through a dispatch
            # table or a shared template are not visible to the syntactic scan above)
            found = {}
            for kind in (KINDS if spec.event_param is not None and spec.label == "on_next" else (None,)):
                try:
                    self.ex.run(spec, kind, {}, max_iter=1)
                except AnalysisError:
                    continue
                for n, ks in self.ex.undecided.items():
                    found.setdefault(n, set()).update(ks)
            for n, vals in domains(found).items():
                if n not in space and vals:
                    space[n] = vals
            space = self._extensions_at_default(spec, space)
            self._cache[key] = space
        return self._cache[key]

    def _extensions_at_default(self, spec, space):
        """The properties speak about the API of the pinned tree.  A parameter that a function of that tree did not have (rxsa/known_params.py)
        and that defaults to None / True / False is an extension: callers who do not use it get the default, and what the operator does
        when it is used is outside every quantifier.  The handlers are analysed with such a parameter at its default only (noted in
        self.extensions for the evidence)."""
        from .known_params import KNOWN_PARAMS
        from .model import _param_owner
        out = dict(space)
        for n in list(space):
            sc = _param_owner(spec.module, spec.fn, n)
            if sc is None or not isinstance(sc.node, ast.FunctionDef):
                continue
            known = KNOWN_PARAMS.get("%s::%s" % (spec.module.relpath, sc.qualname))
            if known is None or n in known or any(k not in sc.params for k in known):
                continue        # (a function that lost one of its parameters was renamed into, not added to: every parameter keeps its full domain)
            a = sc.node.args
            pos = a.posonlyargs + a.args
            dflt = None
            if n in [x.arg for x in pos]:
                k = [x.arg for x in pos].index(n) - (len(pos) - len(a.defaults))
                dflt = a.defaults[k] if k >= 0 else None
            elif n in [x.arg for x in a.kwonlyargs]:
                dflt = a.kw_defaults[[x.arg for x in a.kwonlyargs].index(n)]
            if not isinstance(dflt, ast.Constant) or not (dflt.value is None or isinstance(dflt.value, bool)):
                continue
            if not self._ext_unused(spec.module, sc.node, n, dflt):
                continue
            v = "None" if dflt.value is None else str(dflt.value)
            if v in space[n]:
                out[n] = [v]
                self.extensions.setdefault("%s::%s" % (spec.module.relpath, sc.qualname), set()).add("%s=%s" % (n, v))
                self._ext_cfg.setdefault((id(spec.fn), spec.ctx_key), {})[n] = v
        return out

    def paths(self, spec: HandlerSpec, kind, cfg: Dict[str, str], max_iter=None) -> List[Path]:
        mi = max_iter or self.max_iter
        # a rule that enumerates a handler without valuations (the handler tested no parameter on the pinned tree) still sees an
        # extension parameter at its default
        self.space(spec)
        ext = self._ext_cfg.get((id(spec.fn), spec.ctx_key))
        if ext:
            cfg = dict(ext, **cfg)
        key = (id(spec.fn), tuple(sorted(spec.bound.items())), spec.ctx_key, frozenset(spec.heap0.items()), kind, tuple(sorted(cfg.items())), mi)
        if key not in self._cache:
            ps = self.ex.run(spec, kind, cfg, max_iter=mi)
            self.total_paths += len(ps)
            self._cache[key] = ps
            for p in ps:
                for e in p.trace:
                    if e.k == "call" and e.d.get("unresolved"):
                        from .terms import show
                        self.unresolved.setdefault(spec.qualname, "%s calls %s, a function value the analysis could not resolve" % (e.where(), show(e.func)))
        return self._cache[key]

    def all_paths(self, spec: HandlerSpec, kinds=KINDS, max_iter=None):
        """Yield (kind, cfg, paths) over kinds x configuration valuations."""
        space = self.space(spec)
        for kind in kinds:
            for cfg in valuations(space):
                yield kind, cfg, self.paths(spec, kind, cfg, max_iter)

    def fn_paths(self, module, fn, cfg=None, extra_env=None, max_iter=None, inline=True, roles=None, ctxb=None, no_inline=(), only_inline=None, bind_own_ext=False):
        """Paths of a plain function (no event kind); ctxb binds parameters of the enclosing factories."""
        spec = HandlerSpec(module, fn, None, roles=roles, ctx=ctxb)
        mi = max_iter or self.max_iter
        ext = self._fn_ext_cfg(module, fn)
        if ext:
            cfg = dict(ext, **(cfg or {}))
            # ... the function's own extension parameters are its arguments, not configuration: bound to their default value
            own = module.scopes.get(fn)
            mine = {n: ("const", {"None": None, "True": True, "False": False}[v]) for n, v in ext.items() if own is not None and n in own.params}
            if mine and bind_own_ext:
                extra_env = dict(mine, **(extra_env or {}))
        key = ("fn", id(fn), tuple(sorted((cfg or {}).items())), mi, tuple(sorted((extra_env or {}).items())), inline, spec.ctx_key,
               tuple(id(f) for f in no_inline), None if only_inline is None else tuple(sorted(id(f) for f in only_inline)))
        if key not in self._cache:
            ps = self.ex.run(spec, None, cfg or {}, max_iter=mi, extra_env=extra_env, inline=inline, no_inline=no_inline, only_inline=only_inline)
            self.total_paths += len(ps)
            self._cache[key] = ps
        return self._cache[key]


def _ext_unused(self, module, fnode, name, dflt, depth=0):
    """no call inside rxsci gives the (new) parameter *name* of fnode anything but its default: absent, the same literal, or the
    caller's own extension parameter of the same default handed through (take(count, until=None) -> take_mux(count, until)).  A
    parameter the repository itself sets is not an unused option: the handlers keep its full domain."""
    from .known_params import KNOWN_PARAMS
    from .loader import dotted_name
    key = ("extunused", id(fnode), name)
    if key in self._cache:
        return self._cache[key]
    self._cache[key] = True            # (recursion through mutually forwarding wrappers)
    ok = True
    a = fnode.args
    pos = [x.arg for x in a.posonlyargs + a.args]
    for rel2, m2 in self.program.by_relpath.items():
        if not rel2.startswith("rxsci/"):
            continue
        for c in ast.walk(m2.tree):
            if not isinstance(c, ast.Call):
                continue
            last = c.func.attr if isinstance(c.func, ast.Attribute) else (c.func.id if isinstance(c.func, ast.Name) else None)
            if last != fnode.name:
                continue
            dn = dotted_name(c.func)
            ref = self.program.resolve_dotted(m2, dn) if dn else None
            resolved = bool(ref) and ref[0] == "def"
            if resolved and ref[2] is not fnode:
                continue
            if not resolved and isinstance(c.func, ast.Attribute) and not (pos and pos[0] == "self"):
                continue        # a method of some object that happens to have the function's name (decompressor.decompress(i))
            if not resolved and isinstance(c.func, ast.Name):
                from .model import _lookup_def
                d = _lookup_def(m2, m2.enclosing_function(c), c.func.id)
                if d is not None and d is not fnode:
                    continue
            given = None
            shift = 0 if (resolved or isinstance(c.func, ast.Name)) else (1 if pos and pos[0] == "self" else 0)
            for k, x in enumerate(c.args):
                if isinstance(x, ast.Starred):
                    given = x
                    break
                if k + shift < len(pos) and pos[k + shift] == name:
                    given = x
            for kw in c.keywords:
                if kw.arg == name or kw.arg is None:
                    given = kw.value
            if given is None:
                continue
            if isinstance(given, ast.Constant) and given.value is dflt.value and type(given.value) is type(dflt.value):
                continue
            if isinstance(given, ast.Name) and depth < 4:
                cf = m2.enclosing_function(c)
                owner = None
                while cf is not None:
                    scx = m2.scopes.get(cf)
                    if scx is not None and given.id in scx.params:
                        owner = scx
                        break
                    if scx is not None and given.id in scx.locals:
                        break
                    cf = m2.enclosing_function(cf)
                if owner is not None and isinstance(owner.node, ast.FunctionDef):
                    known = KNOWN_PARAMS.get("%s::%s" % (rel2, owner.qualname))
                    d2 = _default_of(owner.node, given.id)
                    if known is not None and given.id not in known and isinstance(d2, ast.Constant) and d2.value is dflt.value \
                            and self._ext_unused(m2, owner.node, given.id, d2, depth + 1):
                        continue
            ok = False
            break
        if not ok:
            break
    self._cache[key] = ok
    return ok


def _default_of(fnode, name):
    a = fnode.args
    pos = a.posonlyargs + a.args
    names = [x.arg for x in pos]
    if name in names:
        k = names.index(name) - (len(pos) - len(a.defaults))
        return a.defaults[k] if k >= 0 else None
    kn = [x.arg for x in a.kwonlyargs]
    if name in kn:
        return a.kw_defaults[kn.index(name)]
    return None


Ctx._ext_unused = _ext_unused


def _is_extension(self, spec, name):
    """the parameter is one the pinned tree's function did not have; the handlers see it at its default only"""
    self.space(spec)
    return name in self._ext_cfg.get((id(spec.fn), spec.ctx_key), {})


Ctx.is_extension = _is_extension


def _fn_ext_cfg(self, module, fn):
    """{parameter: default} for the extension parameters (see _extensions_at_default) of fn and of the functions around it"""
    from .known_params import KNOWN_PARAMS
    key = ("fnext", id(fn))
    if key in self._cache:
        return self._cache[key]
    out = {}
    sc = module.scopes.get(fn)
    while sc is not None:
        if isinstance(sc.node, ast.FunctionDef):
            known = KNOWN_PARAMS.get("%s::%s" % (module.relpath, sc.qualname))
            if known is not None and not any(k not in sc.params for k in known):
                a = sc.node.args
                pos = a.posonlyargs + a.args
                dmap = {}
                for k, d in enumerate(a.defaults):
                    dmap[pos[len(pos) - len(a.defaults) + k].arg] = d
                for x, d in zip(a.kwonlyargs, a.kw_defaults):
                    if d is not None:
                        dmap[x.arg] = d
                for n, d in dmap.items():
                    if n not in known and n not in out and isinstance(d, ast.Constant) and (d.value is None or isinstance(d.value, bool)) \
                            and self._ext_unused(module, sc.node, n, d):
                        out[n] = "None" if d.value is None else str(d.value)
                        self.extensions.setdefault("%s::%s" % (module.relpath, sc.qualname), set()).add("%s=%s" % (n, out[n]))
        sc = sc.parent
    self._cache[key] = out
    return out


Ctx._fn_ext_cfg = _fn_ext_cfg


def scoped(rule, rels):
    """The rule applied to the construction sites of the given modules only (a property about one operator uses the
    general state / protocol rules on that operator's module, so that it does not depend on unrelated modules)."""
    def run(ctx):
        old = ctx.scope
        ctx.scope = set(rels)
        try:
            return rule(ctx)
        finally:
            ctx.scope = old
    run.__name__ = getattr(rule, "__name__", "rule")
    return run


def only_constructs(rule, rels):
    """The rule as run on the whole tree, keeping only the findings about constructs of the given modules (a property about some
    operators uses a tree-wide rule without answering for the other operators)."""
    def run(ctx):
        res = rule(ctx)
        out = res if isinstance(res, list) else [res]
        for r in out:
            kept = [f for f in r.findings if any(f.construct.startswith(x) or (f.where or "").startswith(x) for x in rels)]
            r.discharged += len(r.findings) - len(kept)
            r.findings = kept
        return res
    run.__name__ = getattr(rule, "__name__", "rule")
    return run


def cfg_str(cfg):
    return ",".join("%s=%s" % (k, v) for k, v in sorted(cfg.items())) or "-"


def trace_of(path: Path, limit=40):
    lines = path.render()
    if len(lines) > limit:
        lines = lines[:limit] + ["... (%d more)" % (len(lines) - limit)]
    return lines


def unresolved_guard(ctx, results):
    """A finding on a path (or about a handler) that goes through code the analysis could not resolve is not a verdict.  When every
    finding of the run is of that kind the run cannot decide: the reason is returned (exit 2).  When other findings stand on fully
    resolved paths they are verdicts: the undecidable ones are set aside (with a note on their rule) and None is returned."""
    def why(f):
        if f.detail.get("structural"):
            return None          # decided from scopes and statements, not from what a path computes
        if f.detail.get("unresolved"):
            return "%s %s: %s (the rule cannot tell what this path does)" % (f.rule, f.construct, f.detail["unresolved"])
        for q, reason in ctx.unresolved.items():
            if f.construct.startswith(q):
                return "%s %s: %s (the rule cannot tell what the handler does)" % (f.rule, f.construct, reason)
        return None
    tainted = [(r, f, why(f)) for r in results for f in r.findings]
    bad = [(r, f, w) for r, f, w in tainted if w]
    if not bad:
        return None
    if len(bad) == len(tainted):
        return bad[0][2]
    for r, f, w in bad:
        r.findings.remove(f)
        r.notes.append("set aside (not a verdict): %s" % w)
    return None


def run_rules(ctx, rules):
    """Run every rule.  A rule that cannot analyse what it is about (AnalysisError, or a crash of the checker) does not decide; the
    others still do.  Returns (results, error): error is None when every rule decided, or when some rule produced a finding on
    resolved code -- a verdict stands whatever another rule could not read, and the undecided rules are noted on the results; it is the
    first reason when nothing was found and some rule could not decide (the run is then not a pass)."""
    results, errors = [], []
    for rule in rules:
        try:
            res = rule(ctx)
        except AnalysisError as e:
            errors.append(str(e))
            continue
        except Exception as e:  # a bug in the checker must never look like a verdict
            errors.append("internal error: %s\n%s" % (e, traceback.format_exc()))
            continue
        results.extend([res] if isinstance(res, RuleResult) else res)
    g = unresolved_guard(ctx, results)
    if g:
        # every finding of the run goes through code the analysis could not resolve: none of them is a verdict
        for r in results:
            for f in r.findings:
                r.notes.append("set aside (not a verdict): %s %s" % (f.rule, f.construct))
            r.findings = []
        errors.insert(0, g)
    if errors and any(r.findings for r in results):
        for r in results:
            if r.findings:
                r.notes.append("another rule of this run could not decide: %s" % errors[0].splitlines()[0][:200])
                break
        return results, None
    return results, (errors[0] if errors else None)


# ----------------------------------------------------------------------
def load_known():
    if not os.path.exists(KNOWN_FINDINGS):
        return {"known": [], "fixed": []}
    with open(KNOWN_FINDINGS) as f:
        return json.load(f)


def run_check(prop_id: str, rules, tier: str, level: str, explanation: str, trusted_base: List[str],
              replay: Optional[str] = None) -> int:
    """Run the rules of one property; write evidence; return the exit code."""
    t0 = time.time()
    seed = int(os.environ.get("VERIF_SEED", "0") or 0)
    os.makedirs(EVIDENCE_DIR, exist_ok=True)
    evidence_path = os.path.join(EVIDENCE_DIR, "%s.json" % prop_id)
    results: List[RuleResult] = []
    error = None
    ctx = None
    try:
        ctx = Ctx(tier=tier)
        results, err = run_rules(ctx, rules)
        if err:
            error = "ANALYSIS-ERROR property=%s %s" % (prop_id, err)
    except AnalysisError as e:
        error = "ANALYSIS-ERROR property=%s %s" % (prop_id, e)
    except Exception as e:  # a bug in the checker must never look like a verdict
        tb = traceback.format_exc()
        error = "ANALYSIS-ERROR property=%s internal error: %s\n%s" % (prop_id, e, tb)

    selftest = None
    if tier == "thorough" and error is None and not os.environ.get("RXSA_NO_SELFTEST"):
        try:
            from .selftest import run_selftest
            selftest = run_selftest(prop_id, repo=ctx.program.repo)
        except Exception as e:
            selftest = {"variants": 0, "error": repr(e)}

    replay_key = None
    if replay:
        try:
            with open(replay) as fh:
                rv = json.load(fh)
            replay_key = (rv.get("rule"), rv.get("construct"))
        except Exception as e:
            error = error or ("ANALYSIS-ERROR property=%s cannot read replay file %s: %s" % (prop_id, replay, e))
    if replay_key is not None:
        # replay = re-run the rules on the current tree and keep only the recorded rule instance
        for r in results:
            r.findings = [f for f in r.findings if (f.rule, f.construct) == replay_key]
        print("replay: rule %s on %s -> %s" % (replay_key[0], replay_key[1],
              "still reported" if any(r.findings for r in results) else "no longer reported on this tree"))

    known = load_known()
    known_keys = {(k["property"], k["rule"], k["construct"]): k for k in known.get("known", [])}
    violations = []
    known_hits = []
    for r in results:
        for f in r.findings:
            k = (prop_id, f.rule, f.construct)
            if k in known_keys:
                known_hits.append((f, known_keys[k]))
            else:
                violations.append(f)

    obligations = sum(r.obligations for r in results)
    discharged = sum(r.discharged for r in results)
    paths = sum(r.paths for r in results)
    groups = sum(len(r.groups) for r in results)
    samples = []
    for r in results:
        for s in r.samples[:2]:
            samples.append({"rule": r.rule, "case": s})
    if not samples:
        samples = [{"rule": "-", "case": "no rule produced a sample"}]
    assumptions = []
    for r in results:
        for a in r.assumptions:
            if a not in assumptions:
                assumptions.append(a)
    cmd = "bin/sa-check %s --tier %s" % (prop_id, tier)
    evidence = {
        "property_id": prop_id,
        "tier": tier,
        "seed": seed,
        "level": level,
        "coverage": {
            "evaluations": max(paths, 1) if not error else max(paths, 0) or 1,
            "distinct_nontrivial": max(groups, 0),
            "rule": "static analysis of /repo/rxsci: every control path of every handler named by a rule, per event kind "
                    "and per configuration valuation; a group is one distinct (rule, construct, kind, configuration) on which "
                    "at least one obligation was evaluated",
            "samples": samples,
            "obligations": obligations,
            "discharged": discharged,
            "checker_cmd": cmd,
            "trusted_base": trusted_base,
            "explanation": explanation,
            "exhaustive": error is None,
            "rules": [r.summary() for r in results],
            "files": ctx.program.digests() if ctx else {},
            "sites": len(ctx.all_sites) if ctx else 0,
            "known_findings_reported": [f.key() for f, _ in known_hits],
            "analysis_error": error,
            "selftest": selftest,
        },
        "assumptions": assumptions,
        "wall_s": round(time.time() - t0, 3),
        "violations": len(violations),
    }
    if not replay:      # a replay re-examines one recorded instance; it is not a run of the check
        with open(evidence_path, "w") as f:
            json.dump(evidence, f, indent=1, sort_keys=False, default=str)

    # ---- console report ----------------------------------------------
    print("sa-check %s tier=%s: %d rule(s), %d instance(s), %d path(s), %d/%d obligation(s) discharged, %.2fs" % (
        prop_id, tier, len(results), sum(r.instances for r in results), paths, discharged, obligations, time.time() - t0))
    for r in results:
        print("  %-8s %-58s inst=%-3d paths=%-5d obl=%d/%d%s" % (
            r.rule, r.title[:58], r.instances, r.paths, r.discharged, r.obligations,
            "  FINDINGS=%d" % len(r.findings) if r.findings else ""))
        for n in r.notes:
            print("           note: %s" % n)
    for a in assumptions:
        print("  assumption: %s" % a)
    if selftest is not None:
        print("  self-test: %d in-memory variant(s) of today's source: %s" % (selftest.get("variants", 0), selftest.get("summary", selftest.get("error"))))
        for res in selftest.get("results", []):
            if res["status"] in ("MISSED", "FALSE-ALARM", "cannot-analyse"):
                print("  SELFTEST-%s %s (%s) fired=%s %s" % (res["status"], res["id"], res.get("note") or res.get("rel"), res.get("fired"), res.get("error") or ""))
    if error:
        print(error)
        return 2
    for f, k in known_hits:
        print("KNOWN-FINDING: property=%s %s %s at %s: %s" % (prop_id, f.rule, f.construct, f.where, f.message))
    if violations:
        vdir = os.path.join(EVIDENCE_DIR, "violations")
        os.makedirs(vdir, exist_ok=True)
        for f in violations:
            dig = hashlib.sha1(f.key().encode()).hexdigest()[:10]
            path = os.path.join(vdir, "%s-%s-%s.json" % (prop_id, f.rule, dig))
            with open(path, "w") as fh:
                json.dump(dict(f.to_json(), property=prop_id, tier=tier), fh, indent=1, default=str)
            print("  %s %s at %s" % (f.rule, f.construct, f.where))
            print("      %s" % f.message)
            for line in f.trace[:30]:
                print("        | %s" % line)
            print("VIOLATION property=%s replay=%s" % (prop_id, os.path.relpath(path, VERIF)))
        return 1
    return 0
