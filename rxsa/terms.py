"""Value terms used by the path enumerator.

A term is a nested tuple; it is the *definition* of a value in terms of the
handler's inputs (the event, factory parameters, free variables, results of
calls).  Terms are obtained by copy propagation through local assignments, so
aliases (``key = i.key``; ``kindex = i.key[0]``) disappear.

  ('ev',)                              the event handed to the handler
  ('attr', t, name)                    attribute load
  ('sub', t, idx[, epoch])             subscript load
  ('const', v)
  ('tuple', t...) ('list', t...)
  ('param', name, owner)               parameter of an enclosing factory
  ('bound', name)                      handler parameter bound by functools.partial
  ('arg', name)                        other positional handler parameter
  ('free', name, owner)                local of an enclosing function
  ('obs', role)                        an observer ('down', 'outer', ...)
  ('glob', dotted) ('builtin', name) ('func', node, module) ('lambda', node)
  ('kindcls', K)                       one of the five mux event classes
  ('mkevent', K, key, payload, store)  event constructor call
  ('replace', base, ((field, t), ...)) namedtuple._replace
  ('binop', op, l, r) ('unop', op, t) ('cmp', op, l, r) ('not', t)
  ('boolop', op, t...) ('ifexp', c, a, b)
  ('call', f, args[, uid])             pure builtin (no uid) or opaque call
  ('mcall', base, meth, args, uid)     method call result
  ('ucall', name, args, uid)           result of a user-function call
  ('store', op, state, key, extra, uid) result of a store read
  ('stateid', name, uid)               result of topology.create_state
  ('loopvar', loop_uid, k, pos)        loop variable of iteration k
  ('exc', uid)                         a caught exception
  ('comp', text, deps) ('opaque', text, deps)
"""
from __future__ import annotations

EV = ("ev",)
KINDS = ("Create", "Next", "Completed", "Error", "Probe", "Other")
KIND_CLASSES = {
    "OnCreateMux": "Create",
    "OnNextMux": "Next",
    "OnCompletedMux": "Completed",
    "OnErrorMux": "Error",
    "ProbeStateTopology": "Probe",
}
EVENT_FIELDS = {
    "Create": ("key", "store"),
    "Next": ("key", "item", "store"),
    "Completed": ("key", "store"),
    "Error": ("key", "error", "store"),
    "Probe": ("topology",),
}

EVKEY = ("attr", EV, "key")
EVITEM = ("attr", EV, "item")
EVSTORE = ("attr", EV, "store")
EVERROR = ("attr", EV, "error")
EVTOPO = ("attr", EV, "topology")


def const(v):
    return ("const", v)


def is_raise(t):
    return isinstance(t, tuple) and len(t) > 0 and t[0] == "!raise"


def subterms(t):
    """All sub-terms of t (including t), depth first."""
    stack = [t]
    while stack:
        x = stack.pop()
        if isinstance(x, tuple):
            if x and isinstance(x[0], str):
                yield x
            for y in x:
                if isinstance(y, tuple):
                    stack.append(y)


def contains(t, sub):
    for x in subterms(t):
        if x == sub:
            return True
    return False


def heads(t):
    return {x[0] for x in subterms(t) if x and isinstance(x[0], str)}


def find(t, head):
    return [x for x in subterms(t) if x and x[0] == head]


def show(t, depth=0) -> str:
    """Compact human readable rendering (for reports)."""
    if not isinstance(t, tuple) or not t:
        return repr(t)
    if depth > 8:
        return "..."
    h = t[0]
    d = depth + 1
    try:
        if h == "ev":
            return "ev"
        if h == "attr":
            return "%s.%s" % (show(t[1], d), t[2])
        if h == "sub":
            return "%s[%s]" % (show(t[1], d), show(t[2], d))
        if h == "slice":
            return "%s:%s" % ("" if t[1] is None else show(t[1], d), "" if t[2] is None else show(t[2], d))
        if h == "const":
            return repr(t[1])
        if h in ("tuple", "list", "set"):
            o, c = {"tuple": "()", "list": "[]", "set": "{}"}[h]
            return o + ", ".join(show(x, d) for x in t[1:]) + c
        if h in ("param", "free", "bound", "arg", "builtin", "undef", "modvar"):
            return t[1]
        if h == "obs":
            return "<%s-observer>" % t[1]
        if h == "glob":
            return t[1]
        if h == "func":
            return "<def %s>" % getattr(t[1], "name", "?")
        if h == "lambda":
            return "<lambda@%d>" % t[1].lineno
        if h == "kindcls":
            return "On%sMux" % t[1] if t[1] != "Probe" else "ProbeStateTopology"
        if h == "mkevent":
            return "%s(key=%s, %s)" % (t[1], show(t[2], d), show(t[3], d))
        if h == "replace":
            return "%s._replace(%s)" % (show(t[1], d), ", ".join("%s=%s" % (k, show(v, d)) for k, v in t[2]))
        if h == "binop":
            sym = {"Add": "+", "Sub": "-", "Mult": "*", "Div": "/", "FloorDiv": "//", "Mod": "%", "Pow": "**",
                   "BitOr": "|", "BitAnd": "&"}.get(t[1], t[1])
            return "(%s %s %s)" % (show(t[2], d), sym, show(t[3], d))
        if h == "unop":
            return "%s(%s)" % (t[1], show(t[2], d))
        if h == "cmp":
            sym = {"Eq": "==", "NotEq": "!=", "Lt": "<", "LtE": "<=", "Gt": ">", "GtE": ">=", "Is": "is",
                   "IsNot": "is not", "In": "in", "NotIn": "not in"}.get(t[1], t[1])
            return "%s %s %s" % (show(t[2], d), sym, show(t[3], d))
        if h == "not":
            return "not (%s)" % show(t[1], d)
        if h == "boolop":
            return "(" + (" %s " % t[1]).join(show(x, d) for x in t[2:]) + ")"
        if h == "ifexp":
            return "(%s if %s else %s)" % (show(t[2], d), show(t[1], d), show(t[3], d))
        if h == "call":
            return "%s(%s)" % (show(t[1], d), ", ".join(show(x, d) for x in t[2]))
        if h == "mcall":
            return "%s.%s(%s)" % (show(t[1], d), t[2], ", ".join(show(x, d) for x in t[3]))
        if h == "ucall":
            return "%s(%s)#%s" % (t[1], ", ".join(show(x, d) for x in t[2]), t[3])
        if h == "store":
            extra = "".join(", " + show(x, d) for x in t[4])
            return "store.%s(%s, %s%s)#%s" % (t[1], show(t[2], d), show(t[3], d), extra, t[5])
        if h == "stateid":
            return "<state %s>" % t[1]
        if h == "loopvar":
            return "<loopvar L%s.%s>" % (t[1], t[3])
        if h == "exc":
            return "<exc#%s>" % t[1]
        if h == "partial":
            return "partial(%s, %s)" % (show(t[1], d), ", ".join(show(x, d) for x in t[2]))
        if h in ("comp", "opaque"):
            return "<%s>" % t[1]
        if h == "fstr":
            return "f'" + "".join(x[1] if x[0] == "const" and isinstance(x[1], str) else "{%s}" % show(x, d) for x in t[1:]) + "'"
        if h == "kw":
            return "%s=%s" % (t[1], show(t[2], d))
        if h == "star":
            return "*" + show(t[1], d)
    except Exception:
        pass
    return "<%s>" % h
