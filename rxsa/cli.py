"""Command line: sa-check <Cnn> [--tier quick|thorough] [--replay file]"""
import argparse
import json
import os
import sys

sys.path.insert(0, os.path.dirname(os.path.dirname(os.path.abspath(__file__))))

from rxsa import props            # noqa: E402
from rxsa.engine import run_check  # noqa: E402


def main():
    ap = argparse.ArgumentParser()
    ap.add_argument("prop")
    ap.add_argument("--tier", default=os.environ.get("VERIF_TIER") or "quick", choices=["quick", "thorough"])
    ap.add_argument("--replay", default=None)
    a = ap.parse_args()
    if a.replay:
        with open(a.replay) as f:
            v = json.load(f)
        print("replaying %s: rule %s on %s" % (a.replay, v.get("rule"), v.get("construct")))
    rules = props.rules_for(a.prop)
    if rules is None:
        print("ANALYSIS-ERROR property=%s is not claimed by the static analysis (see MANIFEST not_applicable)" % a.prop)
        return 2
    try:
        return run_check(a.prop, rules, a.tier, props.LEVEL.get(a.prop, "other"),
                         props.EXPLANATION.get(a.prop, ""), props.TRUSTED, replay=a.replay)
    except Exception as e:  # last line of defence: never a traceback exit code
        print("ANALYSIS-ERROR property=%s internal error: %r" % (a.prop, e))
        return 2


if __name__ == "__main__":
    sys.exit(main())
