"""Property -> rules table and per-property evidence text."""
from __future__ import annotations

TRUSTED = ["python ast (stdlib)", "RxPY: Subject delivers synchronously in subscription order; publish/connect; AutoDetachObserver",
           "idiom and liveness tables in /verif/rxsa (each entry confirmed by reading)"]


def rules_for(prop):
    from .rules import mx, st
    table = {
        "C02": st.RULES,
        "C03": mx.RULES,
    }
    return table.get(prop)


LEVEL = {}
EXPLANATION = {
    "C03": "Per-operator protocol preservation: for each of the 32 MuxObservable construction sites every control path of every "
           "handler is enumerated per event kind and configuration; the emitted events are classified (kind, key class) and "
           "checked against the lifecycle obligations MX-1..MX-8, the grouping typestate LV and the constructor frame WC-2.",
}

DEFAULT_LEVEL_TEXT = ("Static analysis: the named structural clauses (necessary conditions of the property) are decided on every "
                      "control path of the anchored functions, for every event kind and configuration; the behaviour as a whole is not.")
DEFAULT_LEVEL_NOTE = ("Trusted: python ast; RxPY delivery semantics; the idiom tables of the checker. The induction over operator "
                      "composition (each operator preserves the invariant) is stated in DESIGN.md, not mechanised.")
LEVEL_TEXT = {}
LEVEL_NOTE = {}
TECHNIQUE = {}
NOT_APPLICABLE = {}
