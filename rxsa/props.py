"""Property -> rules table and per-property evidence text."""
from __future__ import annotations

TRUSTED = ["python ast (stdlib)", "RxPY: Subject delivers synchronously in subscription order; publish/connect; AutoDetachObserver",
           "idiom and liveness tables in /verif/rxsa (each entry confirmed by reading)"]


def rules_for(prop):
    from .rules import mx, st, grp, lv, scan, er, ms, tm, seq, pr, ag, io, cont, num, sub
    from functools import partial as P
    from .engine import only_constructs, scoped
    ROLL = ("rxsci/data/roll.py",)

    def named(f, **kw):
        g = P(f, **kw)
        return g

    def per_subscription(*rels):
        """SUB-1 / SUB-2 / SUB-3 / GEN-1 / GEN-3 on the modules a property is about (None: every module)"""
        rules = [sub.rule_sub1, sub.rule_sub2, sub.rule_sub3, sub.rule_gen1, sub.rule_gen3, sub.rule_cfg1, sub.rule_arg1, sub.rule_cache1, sub.rule_eq3, sub.rule_dq1]
        return rules if not rels else [scoped(x, rels) for x in rules]
    def error_paths(rule):
        """the tree-wide protocol rule, keeping the findings about the paths an OnErrorMux takes (C13: an unhandled mux error reaches the
        demultiplexer through every operator in between)"""
        def run(ctx):
            res = rule(ctx)
            for r in (res if isinstance(res, list) else [res]):
                kept = [f for f in r.findings if "[Error]" in f.construct]
                r.discharged += len(r.findings) - len(kept)
                r.findings = kept
            return res
        run.__name__ = getattr(rule, "__name__", "rule")
        return run

    def plumbing(*rels, user_results=True):
        """SUB-3 / GEN-3 / CFG-1 on the modules a property is about"""
        return [scoped(sub.rule_sub3, rels), scoped(sub.rule_gen3, rels), scoped(sub.rule_cfg1 if user_results else sub.rule_cfg1_timing, rels),
                scoped(sub.rule_arg1, rels), scoped(sub.rule_gen1, rels), scoped(sub.rule_eq3, rels), scoped(sub.rule_dq1, rels)] + ([scoped(sub.rule_cache1, rels)] if user_results else [])
    SEQ = ("rxsci/operators/first.py", "rxsci/operators/last.py", "rxsci/operators/take.py", "rxsci/operators/distinct.py",
           "rxsci/operators/distinct_until_changed.py", "rxsci/data/lag.py", "rxsci/data/pad.py", "rxsci/operators/start_with.py",
           "rxsci/data/batch.py", "rxsci/data/sort.py", "rxsci/data/to_deque.py", "rxsci/data/to_list.py", "rxsci/operators/scan.py")
    FRAMING = ("rxsci/framing/line.py", "rxsci/framing/length_prefix.py")
    COMPRESSION = ("rxsci/compression/z.py", "rxsci/compression/zstd.py")
    CODEC = ("rxsci/data/codec.py",)
    FILEIO = ("rxsci/io/file.py",)
    table = {
        "C01": per_subscription() + [mx.rule_ev1, ag.rule_ag1, ag.rule_ag2, ag.rule_ag3_small, ag.rule_ag3_map_filter, ag.rule_ag3_do_action, scan.rule_sc1, scan.rule_sd2, tm.rule_tm4, st.rule_st5, seq.rule_fw2, ms.rule_ms, ms.rule_ms6, ms.rule_tp1, named(grp.rule_fw1, heads=("group_by",)), grp.rule_eq2, mx.rule_mx9],
        "C02": st.RULES + [lv.rule_lv, ms.rule_tp1, ms.rule_ms, ms.rule_ms6, tm.rule_tm5, scan.rule_sd1, mx.rule_mx6, sub.rule_gen1, grp.rule_eq2],
        "C03": mx.RULES + [grp.rule_dp4, st.rule_st8, ms.rule_ms, ms.rule_ms6, ms.rule_tp1, sub.rule_sub3, grp.rule_eq2],
        "C04": [named(grp.rule_fwd1, heads=("group_by",)), named(grp.rule_eq1, files=("rxsci/operators/group_by.py", "rxsci/state/memory_store.py", "rxsci/state/store.py",
                                           "rxsci/operators/multiplex.py"), min_instances=1), named(grp.rule_fw1, heads=("group_by",)), grp.rule_fl1,
                named(lv.rule_lv, only=("group_by_mux._group_by.on_subscribe",)), scoped(sub.rule_sub1, ("rxsci/operators/group_by.py",)), ms.ms_for_types("mapper", maps=True), ms.rule_tp1, named(mx.rule_mx5, heads_only=("group_by",)), *plumbing(*("rxsci/operators/group_by.py", "rxsci/operators/multiplex.py", "rxsci/state/with_store.py"))],
        "C05": [named(grp.rule_fwd1, heads=("roll",)), grp.rule_roll, named(grp.rule_fw1, heads=("roll_count",)), named(grp.rule_fw1, heads=("group_by",)), scoped(st.rule_st2_3_4, ROLL), scoped(st.rule_st6, ROLL),
                named(lv.rule_lv, only=("roll_mux._roll.subscribe", "roll_mux._roll_count.subscribe")), scoped(sub.rule_sub1, ROLL), ms.ms_for_types("int", "uint", "mapper", maps=True), ms.rule_tp1, named(mx.rule_mx5, heads_only=("roll",)), *plumbing(*ROLL)],
        "C08": per_subscription("rxsci/operators/tee_map.py") + [tm.rule_tm123, tm.rule_tm4, tm.rule_tm5, st.rule_st5, mx.rule_mx7, ag.rule_ag1, lv.rule_lv, mx.rule_mx5, tm.rule_tm6, only_constructs(pr.rule_pr1, ("rxsci/operators/tee_map.py", "rxsci/mux/"))],
        "C09": scan.RULES + per_subscription("rxsci/operators/scan.py", "rxsci/operators/count.py", "rxsci/data/to_list.py", "rxsci/data/to_array.py") + [ms.ms_for_types("int", "float", "bool", "obj", maps=True), ms.rule_tp1, grp.rule_eq2, mx.rule_mx6, lv.rule_lv, named(grp.rule_fw1, heads=("group_by",)), only_constructs(grp.rule_fl1, ("rxsci/state/memory_store.py",))],
        "C10": seq.RULES + per_subscription(*SEQ) + [only_constructs(ag.rule_ag1, SEQ), only_constructs(ag.rule_ag2, SEQ), scoped(ag.rule_ag8, SEQ), scan.rule_sc1, named(grp.rule_eq1, files=("rxsci/operators/distinct.py", "rxsci/operators/distinct_until_changed.py",
                                                       "rxsci/operators/first.py", "rxsci/operators/take.py", "rxsci/operators/last.py",
                                                       "rxsci/data/lag.py", "rxsci/data/pad.py", "rxsci/operators/start_with.py",
                                                       "rxsci/data/batch.py"), min_instances=1), ms.ms_for_types("int", "bool", "obj", maps=True), ms.rule_tp1, grp.rule_eq2],
        "C11": [io.rule_framing, pr.rule_pr1, pr.rule_pr2, pr.rule_pr4, grp.rule_pr3, seq.rule_dp6, st.rule_st1, tm.rule_tm123, tm.rule_tm4, io.rule_fr3_prompt, io.rule_codec, seq.rule_opt1_time_split, grp.rule_dur1, seq.rule_fw2, tm.rule_tm6, grp.rule_dp4, scan.rule_sd1, only_constructs(ag.rule_ag1, ("rxsci/operators/flat_map.py",)), only_constructs(ag.rule_ag2, ("rxsci/operators/flat_map.py",)), ag.rule_ag8,
                *plumbing(*("rxsci/operators/scan.py", "rxsci/data/roll.py", "rxsci/data/split.py", "rxsci/data/time_split.py", "rxsci/operators/group_by.py",
                                       "rxsci/operators/tee_map.py", "rxsci/data/batch.py", "rxsci/operators/multiplex.py"), user_results=False)],
        "C12": [scoped(sub.rule_dq1, ("rxsci/math/sum.py", "rxsci/math/mean.py", "rxsci/math/min.py", "rxsci/math/max.py", "rxsci/math/variance.py", "rxsci/math/stddev.py", "rxsci/math/formal/variance.py", "rxsci/math/formal/stddev.py", "rxsci/math/formal/__init__.py", "rxsci/operators/scan.py")), ms.ms_for_types("int", "float", "bool", "obj", maps=True), ms.rule_tp1, scan.rule_sd1, scan.rule_sc1, grp.rule_eq2, num.rule_nm1, ag.rule_ag4, named(scan.rule_pu1, files=("rxsci/math/sum.py", "rxsci/math/mean.py", "rxsci/math/min.py", "rxsci/math/max.py",
                                                          "rxsci/math/variance.py", "rxsci/math/stddev.py", "rxsci/math/formal/variance.py",
                                                          "rxsci/math/formal/stddev.py", "rxsci/math/formal/__init__.py"))],
        "C13": er.RULES + [scoped(sub.rule_sub1, ("rxsci/error/ignore.py", "rxsci/error/map.py", "rxsci/error/router.py", "rxsci/operators/map.py", "rxsci/operators/filter.py", "rxsci/operators/scan.py")), mx.rule_mx9, mx.rule_wc2, st.rule_st8, mx.rule_ev1, error_paths(mx.rule_mx_flat), scan.rule_sc1, *plumbing(*("rxsci/error/ignore.py", "rxsci/error/map.py", "rxsci/error/router.py", "rxsci/operators/map.py",
                                                                                   "rxsci/operators/starmap.py", "rxsci/operators/filter.py", "rxsci/operators/scan.py", "rxsci/operators/multiplex.py"))],
        "C14": ms.RULES + [only_constructs(grp.rule_fl1, ("rxsci/state/memory_store.py",))],
        "C15": [io.rule_framing, scoped(sub.rule_src1, FRAMING)] + per_subscription(*FRAMING),
        "C16": [io.rule_compression, scoped(sub.rule_src1, COMPRESSION)] + per_subscription(*COMPRESSION),
        "C17": [io.rule_fh1_file, scoped(sub.rule_src1, CODEC + COMPRESSION + FRAMING + FILEIO), io.rule_codec, io.rule_fr3, io.rule_compression, scoped(io.rule_cd2, CODEC + ("rxsci/container/json.py", "rxsci/container/csv.py") + FRAMING + FILEIO)] + per_subscription(*CODEC),
        "C18": [scoped(sub.rule_src1, ("rxsci/container/csv.py",) + FRAMING + FILEIO), scoped(io.rule_cd2, ("rxsci/container/csv.py",) + CODEC + FRAMING + FILEIO), cont.rule_csv_tables, cont.rule_csv_merge, cont.rule_csv_classify, cont.rule_csv_file_modes, cont.rule_dp7, io.rule_fr3, io.rule_fh1_file, io.rule_fr1] + per_subscription("rxsci/container/csv.py", "rxsci/framing/line.py", *FILEIO),
        "C19": [scoped(sub.rule_src1, ("rxsci/container/json.py",) + CODEC + COMPRESSION + FRAMING + FILEIO), scoped(io.rule_cd2, ("rxsci/container/json.py",) + CODEC + FRAMING + FILEIO + COMPRESSION), cont.rule_ag7, io.rule_framing, io.rule_codec, io.rule_compression, io.rule_fr3, io.rule_fh1_file] + per_subscription("rxsci/container/json.py", *(FRAMING + COMPRESSION + CODEC + FILEIO)),
        "C20": [scoped(sub.rule_src1, ("rxsci/container/parquet.py",)), cont.rule_pu2, seq.rule_dp6, io.rule_fh1_parquet, scan.rule_sd1, scan.rule_sc1] + per_subscription("rxsci/container/parquet.py", "rxsci/data/batch.py", "rxsci/operators/scan.py"),
        "C06": [named(grp.rule_fwd1, heads=("split",)), named(grp.rule_eq1, files=("rxsci/data/split.py",), min_instances=1), named(grp.rule_fw1, heads=("split",)), named(grp.rule_fw1, heads=("group_by",)), grp.rule_dp4,
                named(lv.rule_lv, only=("split_mux._split.on_subscribe",)), scoped(sub.rule_sub1, ("rxsci/data/split.py",)), ms.ms_for_types("obj", "mapper", maps=True), ms.rule_tp1, mx.rule_mx6, named(mx.rule_mx5, heads_only=("split",)), *plumbing(*("rxsci/data/split.py",))],
        "C07": [named(grp.rule_fwd1, heads=("time_split",)), grp.rule_time_split, grp.rule_dur1, seq.rule_opt1_time_split, named(grp.rule_fw1, heads=("time_split",)), named(grp.rule_fw1, heads=("group_by",)),
                named(lv.rule_lv, only=("time_split_mux._time_split.on_subscribe",)), scoped(sub.rule_sub1, ("rxsci/data/time_split.py",)), ms.ms_for_types("obj", "mapper", maps=True), ms.rule_tp1, named(mx.rule_mx5, heads_only=("time_split",)), *plumbing(*("rxsci/data/time_split.py",))],
    }
    return table.get(prop)


LEVEL = {}

_COMMON = ("Every control path of the anchored handlers is enumerated per event kind and configuration valuation (stdlib ast, "
           "copy-propagated value terms, no execution, no solver); each rule evaluates its obligations on those paths and reports the "
           "construct (file:line, handler, kind, configuration, abstract trace) that fails. ")

EXPLANATION = {
    "C01": _COMMON + "Decided clauses: AG-1 every operator documented as dual-mode has a mux arm or is composed only of dual-mode rxsci "
           "operators (RxPY operators only in plain arms); AG-2 both arms of each of the 13 dispatch sites receive the same user parameters; "
           "AG-3 the operators implemented twice in the repo (scan, flat_map, assert_1, tee_map join) have equal per-item / completion "
           "skeletons; AG-3b unset markers of siblings (assert_1; scan on an Observable decides 'no accumulator yet' by its own flag, raised whenever an accumulator is stored, never by looking at the accumulator); AG-3m map / filter on a MuxObservable apply the user function to the item exactly once, map emits its result in place, filter keeps the item iff the result is truthy (as rx.operators.filter); AG-3d do_action on a MuxObservable runs each callback exactly once for the events of its kind (on_next on the item, on_error on the error), before forwarding the event unchanged; SD-2 a scan seeded with an int / bool literal never accumulates in a fixed-width store; FW-2 first/take/last emit what their list definition (and RxPY) says; SC-1 fold skeleton of scan; TM-4 and ST-5 tee_map join skeleton and reset of the join slots at the end of a key (state left over for the next key served by the same index makes the two arms disagree). Not decided: that a *_mux body equals the RxPY operator of the plain arm.",
    "C02": _COMMON + "Decided clauses: ST-1 mux handlers write no closure data outside the Probe branch; ST-2 every state id is add_key'd "
           "on every creation path; ST-3 indices used during a lifetime are included in those initialised at creation (affine index sets "
           "key[0], key[0]*D+[0,D)); ST-4 no use after del_key; ST-5 tee_map join table reset covers the slots written; ST-6 injective child "
           "indices; ST-8 every store call passes (state id, key): the state id never comes from the event, the key does; ST-7 state defaults handed to the store are immutable (a mutable default would be shared by every key); WC-1 frame condition on the store (by reachability from the mux handlers); MS-1..5 add_key/del_key/set/get of the memory store (re-initialisation at creation); TM-5 join table growth; SD-1 the scan seed reaches per-key state only through seed() / deepcopy(seed). Not decided: values; user closures.",
    "C03": _COMMON + "Per-operator protocol preservation for the 32 MuxObservable construction sites: MX-1..4 per-kind lifecycle "
           "obligations, LV typestate of child keys in the five grouping heads (ghost state P = liveness downstream, S = liveness recorded in "
           "the store, invariant S = P while the parent is live), MX-5 sandwich and demux, EV-1 event typing (a handler reads only the fields the event kind has on every path of that kind; events sent on carry the store of the event handled; the event classes of the tree have the field lists the model assumes, else exit 2), MX-6 root (and with_store on several sources: probe, then set_topology, then subscribe), ST-8 store call arguments, MX-7 tee_map de-duplication, MX-8 "
           "terminals add no events, WC-2 constructor frame. The induction over composition is stated in DESIGN.md, not mechanised. Also MS-1..5 of the memory store, whose add_key / del_key semantics the grouping heads rely on.",
    "C04": _COMMON + "Decided clauses: EQ-1 no identity comparison on user values in group_by / MemoryStore; FW-1 every item is forwarded "
           "unchanged to exactly the child whose index is the map entry of key_mapper(item); FL-1 open groups are flushed by iterating the "
           "parent's dict itself (insertion order); LV for group_by; MS-1..5 incl. the group-index allocator (a popped free slot or next_index, per mapper state). Not decided: hash/eq consistency of user keys.",
    "C05": _COMMON + "Decided clauses: DP-0 every item is delivered once to every open window (delivery loop covers the whole ring; FW-1 for the tumbling variant); DP-1 counter incremented exactly once per item and reset with the parent; DP-2 a window opens iff "
           "counter % stride == 0 in slot (counter // stride) % density storing the counter, and closes iff counter - start + 1 == window "
           "(tests compared in linear normal form; the tumbling implementation is chosen exactly when window == stride); DP-3 partial windows are flushed from slot ceil(counter / stride) % density; ST-2/3/4/6 on the slot ring (scoped to roll.py); LV. Not "
           "decided: that density = ceil(window/stride) slots suffice (explicit assumption), exact window contents. Also the per-key-state obligations of the memory store (roll relies on add_key to start a lifetime from its defaults).",
    "C06": _COMMON + "Decided clauses: EQ-1 in split.py; FW-1; DP-4 the boundary test is ==/!= between predicate(item) and the stored "
           "predicate, after every item the stored predicate is that of the item, and child events are Create,Next / Completed,Create,Next / "
           "Next; LV (first segment opened by the first item, last one closed at parent completion iff open); the first item of a key opens exactly one segment (x != x is not assumed false for user values: NaN); the per-key-state obligations of the memory store (add_key re-initialises a slot).",
    "C07": _COMMON + "Decided clauses: CMP-1 each timeout test normalises to new - reference - timeout >= 0 with the active reference the "
           "stored window start and the inactive one the stored last timestamp; DP-5 bookkeeping of both timestamps; ORD-1 event order per "
           "include_closing_item and closing_mapper consulted only when not expired; OPT-1 an explicit zero timeout is a timeout (only None disables one); FW-1; LV; the per-key-state obligations of the memory store. Not decided: arithmetic on timestamps.",
    "C08": _COMMON + "Decided clauses: TM-1 connect() after all len(sources) branches are subscribed; TM-2/3 one published connectable "
           "shared by all branches; TM-4 join skeleton per mode over the key's slice of n slots; TM-5 table growth to (key[0]+1)*n; ST-5 join table reset; MX-7 lifecycle "
           "de-duplication; AG-3 mux and plain joins agree. Not decided: behaviour of the branches themselves.",
    "C09": _COMMON + "Decided clauses: SD-1 the seed reaches accumulator/terminator/state/output only through seed() or deepcopy(seed), seed() exactly where callable(seed) holds "
           "(13 scan call sites classified); SD-2 typed state of literal seeds; SC-1 fold skeleton per (reduce, terminator); SC-2 count adds exactly 1 per item whatever the item, to_list / to_array append the item itself once and return the collection; AG-3 scan_mux = scan_obs skeletons; PU-1 "
           "accumulators do not mutate items or free state and mappers downstream of a scan do not mutate the live accumulator. Also SUB-1/SUB-2/GEN-1 (what the plain scan remembers belongs to one subscription) and the per-key-state obligations of the memory store.",
    "C10": _COMMON + "Decided clauses: FW-2 per-path emission multiplicity and bookkeeping of first, take (countdown > 0, minus exactly 1), "
           "last, pad_start/pad_end (one padding item per element of range(size)), start_with, lag(1)/lag(n) and the dispatch between them, distinct; OPT-1 an explicit falsy padding value pads like any other explicit value (only 'is None' means not given); DP-6 batch flag is len(batch) == batch_size on every path, a new list holding only the item is started exactly after a complete batch, and the "
           "terminator flags the pending list exactly when it was not already emitted and is not empty; DP-8 seed slots compared by value are private markers; SO-1 sort delegates to one stable sorted(items, key=key, reverse=reverse); SO-2 to_deque (the last stage of sort) queues at the right end, emits nothing before completion, then empties the queue from the left end and completes once; EQ-1.",
    "C11": _COMMON + "Decided clauses: PR-1 no scheduler/timer/thread call outside the three sources and every emission is made inside a "
           "handler; PR-2 the set of completion-time emitters is exactly scan(reduce/terminator), last, pad_end (plus named plain codecs), and a streaming codec emits what it can decode / encode while the chunk is handled; "
           "PR-3 windows/segments are completed while their closing item is handled, and an item that restarts the time_split window "
           "completes the old window and creates the new one on the same path; DP-6 (exact batch flags); ST-1 (no buffering of items in closures).",
    "C12": _COMMON + "Decided clauses: NM-1 the update recurrences and output formulas of sum, mean, min, max, variance (Welford: the "
           "(mean, M2, count) invariant determines the update uniquely), formal.variance (centred second moment, not E[x^2] - mean^2), "
           "_moment and both stddev equal the reference ones as rational functions / comparison polarity; variance of fewer than two items "
           "is 0; AG-4 one code path shared by streaming and reduce; PU-1 purity of accumulators and output mappers. Rounding error, i.e. "
           "the accuracy bound itself, is not decidable statically and is not claimed.",
    "C13": _COMMON + "Decided clauses: ER-1 every user call of map/filter/scan is inside a try catching Exception whose handler emits exactly "
           "one OnErrorMux(key, exception, store), no state was written before the raise and the key's state is neither released nor "
           "re-created by the failing item; ER-2 ignore / error.map / router behaviour "
           "per kind incl. dead-letter completion order; ER-3 both demultiplexers turn a mux error into on_error; WC-2; ST-8 / EV-1 the Error branches of the stateful operators downstream are well-formed (store call arguments, event fields) although no test sends an error through them.",
    "C14": _COMMON + "Induction over operation sequences: every MemoryStore method preserves the representation invariant and the frame: "
           "MS-1 lock-step growth up to key[0]; MS-2 writes only at key[0]; MS-3 marker table; MS-4 allocator freshness; MS-5 typecode table; "
           "MS-6 the 18 forwarders of StoreManager/Store pass the same arguments in order; MS-7 is_set / is_cleared read the marker of slot key[0] and iterate yields (key, value, is-set) for exactly the slots not CLEARED. Not decided: value read-back beyond typecodes.",
    "C15": _COMMON + "Decided clauses (narrow): same delimiter written and split; carry-over prepended and re-assigned on every path; "
           "remainder flushed at completion iff non-empty; length-prefix defaults agree and reach to_bytes/from_bytes; CMP-2 both "
           "availability comparisons are inclusive in linear normal form, for the first and for the following frames of a chunk (two loop iterations); carry-over = unconsumed bytes. Not decided: all chunkings.",
    "C16": _COMMON + "Decided clauses: OB-1 every chunk goes through the one codec object and its output is emitted; OB-2 flush output "
           "before on_completed; OB-3 completion without eof ends in on_error only, one terminal per path; OB-4 zstd ignores an empty chunk after the end of the stream (the zstandard object raises on any call after its frame ended); AG-5 gzip wbits equal (31); AG-6 "
           "z and zstd skeletons equal. zlib/zstandard streaming semantics are trusted.",
    "C17": _COMMON + "Decided clauses: one incremental codec per subscription built from the encoding parameter; every item goes through "
           "it; final=True flush emitted before completion; defaults incremental=True; json.py does not override them.",
    "C18": _COMMON + "Decided clauses (narrow): the unescape pairs of parse_line are the inverses of dump's escape pairs; defaults of "
           "separator/escapechar agree and reach join/split; type table (None <-> '', bool <-> 'True'); DP-7 the float parser is not a "
           "separable sum f(int part) + g(fraction part); CS-2 the quoted-field merger consumes every split piece exactly once; CS-3 its decision table over 15 abstract pieces (by length class, first / last character and the parity of the escape run before a final quote) x {field open, closed} is the inverse of the writer's quoting and no path indexes beyond a piece; FR-3 file.read emits every non-empty chunk once, in order, and stops at the first empty chunk; FH-1 file.write closes the handle it opened itself (never a caller's) before forwarding the terminal event. FR-1 line framing of the file reader; CS-5 dump_to_file writes str lines to a text-mode file and encoded lines to a binary one, for the default encoding too.",
    "C19": _COMMON + "Decided clause: AG-7 for each compression setting the stage list of load_from_file(lines=True) is the reversed "
           "stage list of dump_to_file through the inverse table; compression tables, modes, encoding and newline defaults agree; plus the stage rules of C15 (line framing), C16 (codecs) and C17 (text codec) "
           "for the stages the pipeline is composed of, and FR-3 / FH-1 for the file reader and writer.",
    "C20": _COMMON + "Decided clauses: PU-2 the record builder carries no mutable free state into its result and transposes every row into every column in field order; stage order batch -> "
           "to_record -> writer with batch_size forwarded; writer closed before completion; loader emits every row of every batch before "
           "on_completed and leaves the batch loop early only when the subscriber disposed; FH-1 the parquet writer is closed (footer) before the file it opened, and both before the terminal event; a caller's file object is not closed; DP-6 (batch). pyarrow is trusted.",
}

# clauses added after the texts above were written (seed round f, mutation round 4); appended so that every evidence file names them
_PLUMB = (" Also, on the modules of this property: SUB-1 (where listed) per-subscription state -- closure variables rebound by a handler or by any other function of the subscription, the state topology a probe carries, the disposable a subscribe function returns -- is created by the function that makes the subscription; SUB-3 every subscription an operator makes passes a handler for on_next, on_error and "
          "on_completed (or the whole observer) and subscribes its source at most once on a path; GEN-3 every function that builds an "
          "operator's observable returns a value on every path; CFG-1 a factory parameter the handlers test is not recomputed in the factory from "
          "anything but itself (otherwise the run ends as ANALYSIS-ERROR: the per-configuration reading of the handlers would not describe them), and a user function is never wrapped in a cache; ARG-1 an operator factory does not mutate the objects it is given (a list of stages, of sources), directly or through a local alias, nor replace a sequence argument by set / sorted / reversed / dict.fromkeys of it; GEN-1 a one-shot iterator (generator expression, map / zip / iter, itertools objects) built by a factory is not consumed per subscription or per key, in the factory's own inner functions or in those of another factory it is handed to; CACHE-1 no function applied per item, and no operator factory, is memoised by functools; EQ-3 a parameter is not compared with True / False by == or `in` (0 == False); DQ-1 no bounded deque (maxlen) holds items or state. Parameters the pinned tree's functions did not have (rxsa/known_params.py) and that default to None / True / False are analysed at their default only.")
_EQ2 = " EQ-2 a marker object (STATE_NOTSET, STATE_CLEARED) is told apart by identity, never by == (which would run the __eq__ of the user value in the slot)."
_ADDED = {
    "C01": " MX-9 an operator that tells mux events apart and sends them on builds a MuxObservable (a plain Observable of event tuples would send its successor down its plain arm); MS-6 the store layers forward state, key and value unchanged; TP-1 (state ids); FW-1 for group_by." + _EQ2 + _PLUMB,
    "C02": _EQ2 + " ST-5 also: tee_map's join slots are reset when the key is created, on every path that sends the creation on (the moment that covers a lifetime ended by an error), never while a mux error passes (one failing item of a key that goes on), and every store into the join tables addresses the handled key's own slots. MS-6 (forwarders); GEN-1 no generator-built handler; TP-1 the state topology gives every declaration a new state id (create_mapper included); MX-6 one topology is probed by every subscriber of a merged source.",
    "C03": _EQ2 + " DP-4 split records a segment before anything is sent into its pipeline; MS-6 (forwarders); TP-1 (state ids are never shared between declarations); SUB-3 (see C01) on every module.",
    "C04": " MX-5 the sandwich of group_by; FWD-1 the public group_by hands key_mapper and pipeline unchanged to the implementation; TP-1 two group_by in one pipeline get two mapper states." + _PLUMB,
    "C05": " FW-1 also for group_by (the property holds under group_by: the parent's own map is consulted for every item). MX-5 the sandwich of roll; FWD-1 the public roll hands window and stride unchanged to the implementation." + _PLUMB,
    "C06": " FW-1 also for group_by (split under group_by: the parent's own map is consulted for every item). MX-5 the sandwich of split (head, the user pipeline, demux on the head's own Subject); FWD-1 the public split hands predicate and pipeline unchanged to the implementation; MX-6 one shared topology when several multiplexed sources are merged." + _PLUMB,
    "C07": " FW-1 also for group_by (time_split under group_by). DUR-1 durations are ordered as timedelta values (or total_seconds()), never through .seconds / .microseconds / .days alone; MX-5 the sandwich of time_split; FWD-1 the public time_split hands both timeouts, the time mapper, closing_mapper and include_closing_item unchanged to the implementation (no clamping or defaulting)." + _PLUMB,
    "C08": " ST-5 also: tee_map's join slots are reset when the key is created, on every path that sends the creation on (the moment that covers a lifetime ended by an error), never while a mux error passes (one failing item of a key that goes on), and every store into the join tables addresses the handled key's own slots. PR-1 on tee_map and the mux layer: connect and delivery happen synchronously, never through a scheduler. TM-4 also: the zip join releases the key's flags and slots before the tuple goes out; TM-6 who may connect: connect() is called only by tee_map's join, the mux connectable proxy and train_test_split -- never by an operator on a source it was handed; MX-5 also: the shared outer subject of a grouping head is completed / errored exactly when its source is, on every path; TM-3 every application of tee_map publishes its own connectable from its source, also when the source is itself a connectable proxy." + _PLUMB,
    "C09": _EQ2 + " MX-6 the root multiplexer frames a failing source as an error, not as a completion; AG-3b a marker tested in the plain scan's accumulator variable is the value that variable starts with." + _PLUMB,
    "C10": _EQ2 + " FW-2 also: pad_start / pad_end refuse negative sizes only (0 is the identity); AG-8 the plain arms are the implementations confirmed on the pinned tree." + _PLUMB,
    "C11": " PR-4 from_iterable emits each element before it pulls the next (no look-ahead); AG-1 / AG-2 on flat_map (the plain arm is the repository's synchronous twin, given the same arguments); OPT-1 / DUR-1 for time_split (a zero timeout is a timeout; durations compared as durations); TM-1..4 for tee_map: the join completes with its last branch, not with the source." + _PLUMB,
    "C12": _EQ2 + " SC-1 also: the new accumulator is written back before the running value is emitted; The per-key-state obligations of the memory store for the declared types int / float / bool / obj (MS-5: float states are C doubles).",
    "C13": " SUB-1 on the error handlers and the capturing operators (state, and what a subscribe function returns, are per subscription); MX-9 (see C01): the error handlers stay MuxObservables; ER-4 starmap is map(lambda i: mapper(*i)): one call of the user function, no handler of its own." + _PLUMB,
    "C14": " MS-2 also: the three arrays only ever grow, and only in add_key (a slot popped and grown back reads as cleared for a key that is alive and not written yet); TP-1 (state ids); FL-1 (store half) iterate_map walks the parent's dict itself -- every mapped key, in insertion order, no sorting or filtering in between -- and a mapper starts every parent lifetime with its own empty dict.",
    "C15": " FR-1 also: the carry-over of line.unframe is in place before the first line of the chunk is handed on; FR-1 / FR-2 also: unframe signals no terminal event while handling a chunk (a chunk of any length is legitimate); FR-2 guard: the size test of frame rejects only lengths that do not fit in prefix_size bytes (folded for 1, 2, 4, 8)." + _PLUMB,
    "C16": " OB-1 also: compress / decompress handle the completion of their source themselves (flush; end-of-stream check), never hand it over as it comes." + _PLUMB,
    "C17": " FH-1 / FR-3 also: the caller's open function is given path, mode and the encoding keyword on every call. CD-2 every str.encode / bytes.decode on the way of the data (codec, containers, framing, file io) uses the strict error scheme; OB-1 / FR-3 the transports the codec pipelines run over (compression stages, file.read) hand every byte on." + _PLUMB,
    "C18": " CS-1 also: every field that is read is one of none_values or goes through its column parser (no value from anywhere else); FH-1 / FR-3 also: the caller's open function is given path, mode and the encoding keyword on every call. FH-1 also: file.write writes every item as it comes (where it keeps a write buffer, some path of on_completed writes it out whichever kind of target was given); SRC-1 the stages subscribe their source itself, not a pipeline over it that drops items; CD-2 (see C17) on csv.py and the stages of its pipelines; FR-3 also: the chunks are read from the object given as file, or from what was opened from it; CS-5 also: the reader decodes the whole file with one decoder (text-mode file or incremental decode stage, never chunk by chunk) using the encoding it was given; the writer creates / truncates the file." + _PLUMB,
    "C19": " FH-1 / FR-3 also: the caller's open function is given path, mode and the encoding keyword on every call (its documented prototype). AG-7 also: the JSON parser is handed the line as it came (no rewriting of the raw text before it is parsed); SRC-1 dump / load and the stages of their pipelines subscribe the source they were applied to, not a pipeline over it that drops items (distinct_until_changed, filter, take ...); FH-1 also: file.write opens the path through the open function the caller gave (the reader does); CD-2 (see C17) on json.py and the stages of its pipelines." + _PLUMB,
    "C20": " PU-2 also: nothing stands between the caller's file object and the parquet reader (no read() into a buffer, which starts where the caller left the object). PU-2 also: the reader is opened on the caller's file object or on the file opened from the caller's path; the writer is opened on the given schema without an option that rewrites names or values (flavor, timestamp coercion); file modes 'wb' / 'rb'; the loader runs to completion for a path and for a file object." + _PLUMB,
}
for _k, _v in _ADDED.items():
    EXPLANATION[_k] = EXPLANATION[_k] + _v


DEFAULT_LEVEL_TEXT = ("Static analysis: the named structural clauses (necessary conditions of the property) are decided on every "
                      "control path of the anchored functions, for every event kind and configuration; the behaviour as a whole is not.")
DEFAULT_LEVEL_NOTE = ("Trusted: python ast; RxPY delivery semantics; the idiom tables of the checker. The induction over operator "
                      "composition (each operator preserves the invariant) is stated in DESIGN.md, not mechanised.")
LEVEL_TEXT = {k: ("All-paths static analysis of the clauses listed in DESIGN.md section 3 for %s: each obligation is discharged on every "
                  "path / kind / configuration or reported with the failing construct; this decides those clauses for every input, schedule "
                  "and history at once, which tests cannot, but not the behaviour beyond them." % k) for k in EXPLANATION}
LEVEL_TEXT["C12"] = ("Algebraic: the recurrences and output formulas are compared with the reference ones as rational functions (normal "
                     "forms, no solver), the centred forms are required, and streaming/reduce share one fold; the floating-point accuracy bound "
                     "itself is out of reach of static analysis and not claimed.")
LEVEL_NOTE = {}
TECHNIQUE = {
    "C01": "static analysis: dual-dispatch closure over the call graph, arm-argument agreement, sibling path-summary comparison",
    "C02": "static analysis: effect analysis of handlers, must-pass-through add_key, affine index-set inclusion",
    "C03": "static analysis: per-kind path enumeration with event classification; typestate with ghost liveness for grouping heads",
    "C04": "static analysis: identity-comparison lint over resolved names, exactly-once forwarding on all paths, typestate",
    "C05": "static analysis: linear normal forms of the window tests, def-use of the counter, index-set rules, typestate",
    "C06": "static analysis: identity-comparison lint, path summaries of split, typestate",
    "C07": "static analysis: normal form of the expiry comparisons after inlining, store bookkeeping and event order per path",
    "C08": "static analysis: ordering of subscribe/connect effects, join skeleton over index sets, sibling comparison",
    "C09": "static analysis: taint of the seed parameter, fold skeleton per configuration, callback effect classification",
    "C10": "static analysis: per-path emission/bookkeeping summaries, dependence of batch flags, partial evaluation on the seed literal",
    "C11": "static analysis: who-may-call rule for schedulers, closed set of completion-time emitters, close-on-item rule",
    "C12": "static analysis: rational-function normal forms of the aggregate recurrences, single-code-path and purity checks",
    "C13": "static analysis: exceptional-edge path enumeration (must-catch, one error event, no write before raise), handler tables",
    "C14": "static analysis: per-method representation-invariant obligations on all paths, forwarder agreement",
    "C15": "static analysis: writer/reader agreement, inclusive-comparison normal forms, carry-over def-use",
    "C16": "static analysis: must-pass-through codec and flush-before-terminal rules, sibling agreement, constant folding of wbits",
    "C17": "static analysis: per-configuration path rules for incremental codecs, default agreement",
    "C18": "static analysis: escape-table inversion, default agreement, separable-sum dependence rule for the decimal parser",
    "C19": "static analysis: pipeline stage extraction and inverse-table symmetry",
    "C20": "static analysis: callback effect classification (free state into result), stage order, loop/terminal order",
}
NOT_APPLICABLE = {}
