"""Property -> rules table and per-property evidence text."""
from __future__ import annotations

TRUSTED = ["python ast (stdlib)", "RxPY: Subject delivers synchronously in subscription order; publish/connect; AutoDetachObserver",
           "idiom and liveness tables in /verif/rxsa (each entry confirmed by reading)"]


def rules_for(prop):
    from .rules import mx, st, grp, lv, scan, er, ms, tm, seq, pr, ag, io
    from functools import partial as P

    def named(f, **kw):
        g = P(f, **kw)
        return g
    table = {
        "C01": [ag.rule_ag1, ag.rule_ag2, ag.rule_ag3_small, scan.rule_sc1, tm.rule_tm4],
        "C02": st.RULES,
        "C03": mx.RULES,
        "C04": [named(grp.rule_eq1, files=("rxsci/operators/group_by.py", "rxsci/state/memory_store.py", "rxsci/state/store.py",
                                           "rxsci/operators/multiplex.py"), min_instances=12), named(grp.rule_fw1, heads=("group_by",)), grp.rule_fl1,
                named(lv.rule_lv, only=("group_by_mux._group_by.on_subscribe",))],
        "C05": [grp.rule_roll, st.rule_st2_3_4, st.rule_st6,
                named(lv.rule_lv, only=("roll_mux._roll.subscribe", "roll_mux._roll_count.subscribe"))],
        "C08": [tm.rule_tm123, tm.rule_tm4, st.rule_st5, mx.rule_mx7],
        "C09": scan.RULES,
        "C10": seq.RULES + [named(grp.rule_eq1, files=("rxsci/operators/distinct.py", "rxsci/operators/distinct_until_changed.py",
                                                       "rxsci/operators/first.py", "rxsci/operators/take.py", "rxsci/operators/last.py",
                                                       "rxsci/data/lag.py", "rxsci/data/pad.py", "rxsci/operators/start_with.py",
                                                       "rxsci/data/batch.py"), min_instances=30)],
        "C11": [pr.rule_pr1, pr.rule_pr2, grp.rule_pr3, seq.rule_dp6, st.rule_st1],
        "C12": [ag.rule_ag4, named(scan.rule_pu1, files=("rxsci/math/sum.py", "rxsci/math/mean.py", "rxsci/math/min.py", "rxsci/math/max.py",
                                                          "rxsci/math/variance.py", "rxsci/math/stddev.py", "rxsci/math/formal/variance.py",
                                                          "rxsci/math/formal/stddev.py", "rxsci/math/formal/__init__.py"))],
        "C13": er.RULES + [mx.rule_wc2],
        "C14": ms.RULES,
        "C15": [io.rule_framing],
        "C16": [io.rule_compression],
        "C17": [io.rule_codec],
        "C06": [named(grp.rule_eq1, files=("rxsci/data/split.py",), min_instances=7), named(grp.rule_fw1, heads=("split",)), grp.rule_dp4,
                named(lv.rule_lv, only=("split_mux._split.on_subscribe",))],
        "C07": [grp.rule_time_split, named(grp.rule_fw1, heads=("time_split",)),
                named(lv.rule_lv, only=("time_split_mux._time_split.on_subscribe",))],
    }
    return table.get(prop)


LEVEL = {}
EXPLANATION = {
    "C03": "Per-operator protocol preservation: for each of the 32 MuxObservable construction sites every control path of every "
           "handler is enumerated per event kind and configuration; the emitted events are classified (kind, key class) and "
           "checked against the lifecycle obligations MX-1..MX-8, the grouping typestate LV and the constructor frame WC-2.",
}

DEFAULT_LEVEL_TEXT = ("Static analysis: the named structural clauses (necessary conditions of the property) are decided on every "
                      "control path of the anchored functions, for every event kind and configuration; the behaviour as a whole is not.")
DEFAULT_LEVEL_NOTE = ("Trusted: python ast; RxPY delivery semantics; the idiom tables of the checker. The induction over operator "
                      "composition (each operator preserves the invariant) is stated in DESIGN.md, not mechanised.")
LEVEL_TEXT = {}
LEVEL_NOTE = {}
TECHNIQUE = {}
NOT_APPLICABLE = {}
