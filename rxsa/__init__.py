"""rxsa -- repository-specific static analysis for maki-nage/rxsci.

Everything in this package works on the *source* of /repo/rxsci (stdlib ``ast``
only).  Nothing here imports or runs rxsci.
"""

__all__ = ["loader", "terms", "executor", "model"]
