"""Run-time demonstration (not part of any check) of the DP-3 finding:
roll closes partial windows in slot order, not in opening order."""
import rx, rxsci as rs
out = []
rx.from_([1, 2, 3, 4]).pipe(
    rs.state.with_memory_store([
        rs.data.roll(3, 1, [rs.data.to_list()]),
    ]),
).subscribe(on_next=out.append)
print(out)
assert out == [[1, 2, 3], [2, 3, 4], [3, 4], [4]], "windows are not closed in the order they were opened"
print("ok")
