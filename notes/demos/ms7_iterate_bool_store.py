"""MS-7 (C14): MemoryStore.iterate() reads a bool state back as the raw 0 / 1 of the backing array('B'), where get() reads the
same slot back as a bool.  C14: a written slot "reads back the last value written with the declared type", for all sequences of
add_key / set / get / del_key / iterate.  Run with PYTHONPATH=<tree>; exits 1 while the defect is present."""
import sys
import rxsci as rs

store = rs.state.MemoryStore(name='flag', data_type=bool)
store.add_key((0, None))
store.set((0, None), True)
store.add_key((1, None))
store.set((1, None), False)
got = store.get((0, None)), store.get((1, None))
it = [(v, s) for _, v, s in store.iterate()]
print("get     ->", got)
print("iterate ->", it)
ok = all(type(v) is bool for v, _ in it) and [v for v, _ in it] == [True, False] and got == (True, False)
# the codebase tests flags by identity (`if flag is True`): an int 1 fails that test
print("holds" if ok else "VIOLATED: iterate() yields %r for a bool state written as True" % (it[0][0],))
sys.exit(0 if ok else 1)
