"""Run-time demonstration (not part of any check) of the PU-1 finding:
formal.variance in streaming mode clears the live accumulator."""
import rx, rxsci as rs
out = []
rx.from_([1.0, 2.0, 3.0, 4.0]).pipe(rs.math.formal.variance()).subscribe(on_next=out.append)
print(out)
assert [round(v, 4) for v in out] == [0.0, 0.25, 0.6667, 1.25], "streaming population variance is wrong"
print("ok")
