"""Run-time demonstration (not part of any check) of the DP-8 finding."""
import rx, rxsci as rs
out = []
rx.from_([None, None, 1, 1, None]).pipe(rs.ops.distinct_until_changed()).subscribe(on_next=out.append)
print(out)
assert out == [None, 1, None], "a leading None is dropped"
print("ok")
