"""Run-time demonstration (not part of any check) of the AG-3b finding: assert_1 plain vs mux on a None item."""
import rx, rxsci as rs
def run(mux):
    out, err = [], []
    pipe = [rs.ops.assert_1(lambda prev, cur: prev is not None and cur is not None and cur > prev)]
    src = rx.from_([None, 1, 2])
    if mux:
        src = src.pipe(rs.state.with_memory_store(pipe))
    else:
        src = src.pipe(*pipe)
    src.subscribe(on_next=out.append, on_error=err.append)
    return out, bool(err)
p, m = run(False), run(True)
print("plain", p, "mux", m)
assert p == m, "plain and multiplexed assert_1 disagree"
print("ok")
