"""C18: csv.dump_to_file with its default arguments (encoding=None) hands str lines to a file that file.write opens in mode 'wb'
(its fallback when it is given no mode): the first line raises TypeError, nothing is written, and the round trip through
dump_to_file / load_from_file fails unless an encoding is given."""
import os
import tempfile
import typing
import rx
import rxsci.container.csv as csv


class Row(typing.NamedTuple):
    a: int
    b: str


rows = [Row(1, 'x'), Row(2, 'y,z')]
d = tempfile.mkdtemp()
bad = []
for enc in (None, 'utf-8'):
    fn = os.path.join(d, 't_%s.csv' % enc)
    errors, out = [], []
    kw = {} if enc is None else {'encoding': enc}
    rx.from_(rows).pipe(csv.dump_to_file(fn, **kw)).subscribe(on_error=errors.append)
    csv.load_from_file(fn, csv.create_line_parser(dtype=[('a', 'int'), ('b', 'str')]), **kw).subscribe(
        on_next=out.append, on_error=errors.append)
    ok = [tuple(o) for o in out] == [tuple(r) for r in rows] and not errors
    print("encoding", enc, "->", [tuple(o) for o in out], errors[:1], "OK" if ok else "MISMATCH")
    if not ok:
        bad.append(enc)
assert not bad, "C18 violated for encoding %s" % bad
