# demonstration for the ST-5 {error-end} finding (for understanding only, never part of a check): before 4dc75fc the first line printed ([(1, 2)], []), after it ([], [])
import rx, rxsci as rs
def boom(i):
    if i == 'X': raise ValueError('x')
    return i
def run(items):
    out=[]; err=[]
    rx.from_(items).pipe(rs.state.with_memory_store(rx.pipe(
        rs.ops.map(boom),
        rs.data.roll(3, 3, rx.pipe(
            rs.ops.tee_map(rs.ops.filter(lambda i: i % 2 == 1), rs.ops.filter(lambda i: i % 2 == 0)),
            rs.error.ignore(),
        )),
        rs.error.ignore(),
    ))).subscribe(on_next=out.append, on_error=err.append)
    return out, err
print(run([1, 'X', 2, 4, 6]))
print(run([2, 4, 6]))
