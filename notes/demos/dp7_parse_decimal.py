"""Run-time demonstration (not part of any check) of the DP-7 finding."""
from rxsci.container.csv import parse_decimal
vals = {s: parse_decimal(s) for s in ("-1.5", "-0.25", "3.75", "-12.125", "1e3", "7")}
print(vals)
assert all(v == float(s) for s, v in vals.items()), "negative decimals are parsed wrongly"
print("ok")
