"""C06: when the predicate value of the first item of a key is not equal to itself (NaN, or any object whose != says so), split
opens the first segment, closes it at once and opens a second one: an empty segment precedes the key's items."""
import rx
import rxsci as rs

nan = float('nan')


def segments(items, predicate):
    out = []
    rx.from_(items).pipe(rs.state.with_memory_store(rx.pipe(
        rs.data.split(predicate, rx.pipe(rs.data.to_list())),
    ))).subscribe(on_next=out.append)
    return out


def reference(items, predicate):
    segs, prev = [], None
    for k, i in enumerate(items):
        p = predicate(i)
        if k == 0 or p != prev:
            segs.append([])
        segs[-1].append(i)
        prev = p
    return segs


bad = []
for items, pred in (([1, 2, 3], lambda i: nan), ([nan, 1.0, 1.0], lambda i: i), ([1, 1, 2], lambda i: i)):
    got, want = segments(items, pred), reference(items, pred)
    print(items, "->", got, "expected", want)
    if repr(got) != repr(want):
        bad.append(items)
assert not bad, "C06 violated: %s" % bad
