"""Run-time demonstration (not part of any check) of the PU-2 finding: every parquet batch after
the first also contains the rows of the previous batches."""
import os, tempfile, rx, rxsci as rs
import pyarrow as pa, pyarrow.parquet as pq
import rxsci.container.parquet as parquet
schema = pa.schema([("a", pa.int64())])
rows = [{"a": i} for i in range(7)]
d = tempfile.mkdtemp(); f = os.path.join(d, "t.parquet")
rx.from_(rows).pipe(parquet.dump_to_file(f, schema, batch_size=3)).subscribe()
got = pq.read_table(f).to_pylist()
print(len(got), got)
os.remove(f); os.rmdir(d)
assert got == rows, "rows duplicated in the parquet file"
print("ok")
