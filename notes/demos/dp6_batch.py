"""Run-time demonstration (not part of any check) of the DP-6 findings in rs.data.batch."""
import rx, rxsci as rs
from rx.subject import Subject
def run(items, n):
    out = []
    rx.from_(items).pipe(rs.data.batch(n)).subscribe(on_next=out.append)
    return out
a = run([1, 2, 3, 4, 5, 6], 3); print(a)
b = run([], 3); print(b)
s = Subject(); seen = []
s.pipe(rs.data.batch(1)).subscribe(on_next=seen.append)
s.on_next(1); s.on_next(2); prompt = list(seen); print(prompt)
assert a == [[1, 2, 3], [4, 5, 6]], "final batch duplicated when the length is a multiple of batch_size"
assert b == [], "empty batch emitted for an empty source"
assert prompt == [[1], [2]], "batch(1) emits its batches one item late"
print("ok")
