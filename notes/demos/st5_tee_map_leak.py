"""Run-time demonstration (not part of any check) of the ST-5 finding:
tee_map join slots of branches 0..n-2 leak from one window into the next."""
import rx, rxsci as rs
import rx.operators as ops
out = []
rx.from_([1, 2, 3, 4, 5, 6]).pipe(
    rs.state.with_memory_store([
        rs.data.roll(3, 3, [
            rs.ops.tee_map(
                rs.ops.filter(lambda i: i < 3),
                rs.ops.count(),
                join='combine_latest'),
        ]),
    ]),
).subscribe(on_next=out.append)
print(out)
# second window = items 4,5,6: branch 0 (filter <3) is silent, so every tuple must start with None
second = out[-3:]
assert all(t[0] is None for t in second), "LEAK: value of the first window seen in the second: %r" % (second,)
print("ok")
