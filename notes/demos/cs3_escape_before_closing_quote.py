"""C18: a string that ends with the escape character does not survive csv dump -> load when another field of the row contains the
separator (the quoted-field merger then runs): '"a\\\\"' ends with a quote preceded by an escape character, which the merger takes
for an escaped quote although the two escape characters are one escaped backslash followed by the closing quote."""
import typing
import rx
import rxsci.container.csv as csv


class Row(typing.NamedTuple):
    a: str
    b: str


def round_trip(rows):
    lines, out, errors = [], [], []
    rx.from_([Row(*r) for r in rows]).pipe(csv.dump(header=True)).subscribe(on_next=lines.append)
    text = "".join(lines)
    parser = csv.create_line_parser(dtype=[('a', 'str'), ('b', 'str')])
    rx.from_(text.split('\n')[:-1]).pipe(csv.load(parser)).subscribe(on_next=out.append, on_error=errors.append)
    return text, [tuple(o) for o in out], errors


bad = []
for rows in ([("a\\", "b,c")], [("b,c", "a\\")], [("x\\\\", "y,z")], [("a", "b,c\\")], [('q\\"', 'r,s')]):
    text, out, errors = round_trip(rows)
    ok = out == [tuple(r) for r in rows] and not errors
    print(rows, "->", repr(text), "->", out, "OK" if ok else "MISMATCH %s" % errors[:1])
    if not ok:
        bad.append(rows)
assert not bad, "C18 violated for %s" % bad
