"""C09 / C01: on a MuxObservable scan keeps the accumulator of a key in a typed array chosen from type(seed); an accumulator that
returns another kind of value than the seed raises (seed 0 over floats, ints beyond 64 bits) or is silently truncated (seed False
used as a counter), while the same scan on a plain Observable folds correctly."""
import rx
import rxsci as rs


def plain(items, acc, seed):
    out = []
    rx.from_(items).pipe(rs.ops.scan(acc, seed=seed)).subscribe(on_next=out.append, on_error=lambda e: out.append(('ERR', type(e).__name__)))
    return out


def mux(items, acc, seed):
    out = []
    rx.from_(items).pipe(rs.state.with_memory_store(rx.pipe(rs.ops.scan(acc, seed=seed)))).subscribe(
        on_next=out.append, on_error=lambda e: out.append(('ERR', type(e).__name__)))
    return out


bad = []
for items, acc, seed in (([1.5, 2.5], lambda a, i: a + i, 0), ([1, 1, 1], lambda a, i: a + i, False), ([2**62, 2**62], lambda a, i: a + i, 0),
                         ([1, 2], lambda a, i: a + i, 0)):
    p, m = plain(items, acc, seed), mux(items, acc, seed)
    print(items, "seed", repr(seed), "plain", p, "mux", m)
    if p != m:
        bad.append((items, seed))
assert not bad, "C09 / C01 violated for %s" % bad
