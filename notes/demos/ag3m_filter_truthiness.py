import rx, rxsci as rs
import rx.operators as ops
items = [1, 2, 3, 4, 5]
pred = lambda i: i % 2            # truthy (1) for odd numbers, not the object True
plain = []
rx.from_(items).pipe(rs.ops.filter(pred)).subscribe(on_next=plain.append)
mux = []
rx.from_(items).pipe(rs.ops.multiplex(rx.pipe(rs.ops.filter(pred)))).subscribe(on_next=mux.append)
print("plain:", plain)
print("mux  :", mux)
assert plain == mux, "C01 violated: filter on a MuxObservable drops items whose predicate is truthy but not True"
