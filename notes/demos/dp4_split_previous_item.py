"""DP-4 (C06): split compares the predicate value of an item with the value stored when the current segment was OPENED, not with
that of the previous item.  C06: "a new segment starts exactly when the predicate value differs (by !=) from that of the previous
item", for all predicates.  The two readings differ as soon as != is not transitive on the predicate values (tolerance classes,
approximate matches).  Run with PYTHONPATH=<tree>; exits 1 while the defect is present."""
import sys
import rx
import rxsci as rs


class Near:
    """predicate value: equal to another one when they are at most 1 apart"""
    def __init__(self, v):
        self.v = v

    def __eq__(self, o):
        return abs(self.v - o.v) <= 1

    def __ne__(self, o):
        return not self.__eq__(o)

    def __hash__(self):
        return 0


def reference(items, pred):
    out, prev = [], None
    for k, i in enumerate(items):
        p = pred(i)
        if k == 0 or p != prev:
            out.append([])
        out[-1].append(i)
        prev = p
    return out


bad = 0
for items in ([0, 1, 2, 3], [0, 1, 2, 3, 10, 11, 12], [5, 4, 3, 2, 1], [0, 2, 3, 4]):
    got = []
    rx.from_(items).pipe(
        rs.state.with_memory_store(rx.pipe(
            rs.data.split(lambda i: Near(i), rx.pipe(rs.data.to_list())),
        )),
    ).subscribe(on_next=got.append)
    want = reference(items, Near)
    ok = got == want
    bad += not ok
    print(items, "->", got, "" if ok else "   expected %s" % want)
print("holds" if not bad else "VIOLATED on %d input(s)" % bad)
sys.exit(1 if bad else 0)
