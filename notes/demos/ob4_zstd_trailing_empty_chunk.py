"""C16: a re-chunking of a zstd stream that ends with an empty chunk ([compressed, b'']) ends with on_error instead of completing:
the zstandard decompression object raises on any call made after its frame has ended. gzip completes on the same re-chunking."""
import rx
import rxsci.compression.z as z
import rxsci.compression.zstd as zstd

data = b'hello world' * 10
bad = []
for name, mod in (('gzip', z), ('zstd', zstd)):
    comp = []
    rx.from_([data]).pipe(mod.compress()).subscribe(on_next=comp.append)
    blob = b''.join(comp)
    for chunks in ([blob], [blob, b''], [b'', blob], [blob[:5], b'', blob[5:]], [blob[:-1], blob[-1:], b'', b'']):
        out, err, done = [], [], []
        rx.from_(chunks).pipe(mod.decompress()).subscribe(on_next=out.append, on_error=err.append, on_completed=lambda: done.append(1))
        ok = b''.join(out) == data and done and not err
        print(name, [len(c) for c in chunks], "OK" if ok else "FAIL %s" % err[:1])
        if not ok:
            bad.append((name, [len(c) for c in chunks]))
assert not bad, "C16 violated: %s" % bad
