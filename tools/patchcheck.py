#!/venv/bin/python
"""tools/patchcheck.py <patch.diff>... : apply each patch in memory to the analysed tree (RXSA_REPO or /repo) and run the
rules of all 20 properties (quick tier).  Prints, per patch, the properties that are not silent:
  Cnn=1 (findings, with the first rule/construct)   Cnn=2 (analysis error)."""
import os
import sys
from concurrent.futures import ProcessPoolExecutor

sys.path.insert(0, os.path.dirname(os.path.dirname(os.path.abspath(__file__))))


def run(path):
    from rxsa import props
    from rxsa.engine import Ctx, unresolved_guard
    from rxsa.loader import AnalysisError, Program
    from rxsa.selftest import apply_unified_diff
    repo = os.environ.get("RXSA_REPO", "/repo")
    out = []
    try:
        base = Program(repo)
        files = apply_unified_diff(open(path).read(), lambda rel: base.by_relpath[rel].src if rel in base.by_relpath else None)
        if not files:
            return path, ["patch does not apply"]
        prog = base
        for rel, src in files.items():
            prog = prog.overlay(rel, src)
        ctx = Ctx(program=prog, tier="quick")
    except SyntaxError as e:
        return path, ["syntax error %s" % e]
    except AnalysisError as e:
        return path, ["ALL=2 %s" % str(e)[:160]]
    for k in range(1, 21):
        prop = "C%02d" % k
        fired, err, allres = [], None, []
        try:
            from rxsa.engine import run_rules
            allres, err = run_rules(ctx, props.rules_for(prop))
            fired = [] if err else ["%s %s" % (f.rule, f.construct) for r in allres for f in r.findings]
        except AnalysisError as e:
            err = str(e)
        except Exception as e:
            err = "internal error: %r" % (e,)
        if err:
            out.append("%s=2 %s" % (prop, err[:140]))
        elif fired:
            out.append("%s=1 %s" % (prop, fired[0][:140]))
    return path, out


if __name__ == "__main__":
    paths = sys.argv[1:]
    with ProcessPoolExecutor(max_workers=min(16, len(paths) or 1)) as ex:
        res = list(ex.map(run, paths))
    bad = 0
    for path, out in res:
        if out:
            bad += 1
            print("%s:" % path)
            for o in out:
                print("    " + o)
    print("%d patch(es), %d not silent" % (len(res), bad))
