#!/bin/sh
# tools/confirm_seed.sh <seed-id> <property> : confirm a seeded change in its scratch worktree and file it under /verif/seeded/<id>/
ID="$1"; PROP="$2"; W=/tmp/seed/$ID; S=$W/_seed
set -e
cd $W
test -f $S/patch.diff && test -f $S/demo.py
git diff -- rxsci > /tmp/seed/$ID.cur.diff
if ! cmp -s /tmp/seed/$ID.cur.diff $S/patch.diff; then echo "NOTE: worktree diff differs from patch.diff; using the worktree diff"; cp /tmp/seed/$ID.cur.diff $S/patch.diff; fi
echo "-- tests with the change"
T=$(PYTHONPATH=$W /venv/bin/python -m pytest -q -p no:cacheprovider --timeout=900 2>&1 | tail -1); echo "$T"
echo "-- demo with the change (must fail)"
set +e
PYTHONPATH=$W /venv/bin/python $S/demo.py > /tmp/seed/$ID.with.log 2>&1; RC_WITH=$?
git apply -R $S/patch.diff
PYTHONPATH=$W /venv/bin/python $S/demo.py > /tmp/seed/$ID.without.log 2>&1; RC_WITHOUT=$?
git apply $S/patch.diff
set -e
echo "demo exit with=$RC_WITH without=$RC_WITHOUT"
case "$T" in *"257 passed"*) ;; *) echo "REJECT: tests"; exit 1;; esac
[ $RC_WITH -ne 0 ] && [ $RC_WITHOUT -eq 0 ] || { echo "REJECT: demo"; exit 1; }
D=/verif/seeded/$ID; mkdir -p $D
cp $S/patch.diff $S/demo.py $D/; [ -f $S/notes.md ] && cp $S/notes.md $D/
/venv/bin/python - "$ID" "$PROP" "$T" "$RC_WITH" "$RC_WITHOUT" <<'PY'
import json, sys, subprocess
ID, PROP, T, a, b = sys.argv[1:6]
files = subprocess.run(["git", "-C", "/tmp/seed/%s" % ID, "diff", "--stat", "--", "rxsci"], capture_output=True, text=True).stdout.strip().splitlines()
meta = {"id": ID, "property": PROP, "changed": [l.split("|")[0].strip() for l in files[:-1]],
        "needs_to_manifest": "see notes.md",
        "confirmed": {"tests_with_change": T, "demo_exit_with_change": int(a), "demo_exit_without_change": int(b),
                      "how": "tools/confirm_seed.sh in the scratch worktree /tmp/seed/%s (pytest with PYTHONPATH=worktree; demo with and without the patch via git apply -R / git apply)" % ID},
        "base_commit": subprocess.run(["git", "-C", "/tmp/seed/%s" % ID, "rev-parse", "--short", "HEAD"], capture_output=True, text=True).stdout.strip()}
json.dump(meta, open("/verif/seeded/%s/meta.json" % ID, "w"), indent=1)
PY
echo "FILED $D"
