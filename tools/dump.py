"""debug helper: dump sites, handlers and paths"""
import sys, os
sys.path.insert(0, os.path.dirname(os.path.dirname(os.path.abspath(__file__))))
from rxsa.loader import Program
from rxsa.model import find_sites, config_space, valuations
from rxsa.executor import Executor
from rxsa.terms import KINDS

prog = Program()
sites = find_sites(prog)
flt = sys.argv[1] if len(sys.argv) > 1 else None
kindf = sys.argv[2] if len(sys.argv) > 2 else None
ex = Executor(prog)
print(len(sites), "sites", sum(1 for s in sites if s.ctor != 'create'), "mux")
for s in sites:
    if flt and flt not in s.name:
        continue
    print("==", s.ctor, s.name, s.where(), "observer=", s.observer_param)
    for sub in s.subscriptions:
        print("   sub", sub.source_text, "passthrough" if sub.passthrough else {k: (h.how, h.spec.qualname if h.spec else h.method) for k, h in sub.handlers.items()})
        if flt is None:
            continue
        for which, h in sub.handlers.items():
            if h.how != 'fn':
                continue
            space = config_space(prog, h.spec)
            print("   handler", which, h.spec.qualname, "event=", h.spec.event_param, "config space", space)
            kinds = KINDS if (s.ctor != 'create' and which == 'on_next') else (None,)
            for kind in kinds:
                if kindf and kind != kindf:
                    continue
                for cfg in valuations(space):
                    paths = ex.run(h.spec, kind, cfg)
                    print("    -- kind", kind, "cfg", cfg, ":", len(paths), "paths")
                    for p in paths:
                        print("       path", p.outcome, "trunc" if p.truncated else "")
                        for line in p.render():
                            print("          ", line)
