#!/venv/bin/python
"""tools/gen_rules_table.py : markdown table 'property -> rules as built' (rule id, what it decides, instances on today's tree)"""
import os, sys
sys.path.insert(0, os.path.dirname(os.path.dirname(os.path.abspath(__file__))))
from rxsa import props
from rxsa.engine import Ctx
ctx = Ctx()
print("| property | rule | decides | instances / paths / obligations on the pinned tree |")
print("|---|---|---|---|")
for k in range(1, 21):
    p = "C%02d" % k
    for rule in props.rules_for(p):
        res = rule(ctx)
        for r in (res if isinstance(res, list) else [res]):
            print("| %s | %s | %s | %d / %d / %d |" % (p, r.rule, r.title.replace("|", "/"), r.instances, r.paths, r.obligations))
