#!/venv/bin/python
"""tools/mutbatch.py <file.py with MUTANTS = [(relpath, old, new, note), ...]> : apply each textual mutant in memory and run
all 20 properties; prints which properties report it (exploration helper for hand-written defects)."""
import os, sys, runpy
from concurrent.futures import ProcessPoolExecutor
sys.path.insert(0, os.path.dirname(os.path.dirname(os.path.abspath(__file__))))


def run(mt):
    rel, old, new, note = mt
    from rxsa import props
    from rxsa.engine import Ctx, unresolved_guard
    from rxsa.loader import AnalysisError, Program
    base = Program(os.environ.get("RXSA_REPO", "/repo"))
    src = base.by_relpath[rel].src
    if src.count(old) != 1:
        return mt, ["anchor text found %d times" % src.count(old)]
    try:
        prog = base.overlay(rel, src.replace(old, new, 1))
        ctx = Ctx(program=prog, tier="quick")
    except SyntaxError as e:
        return mt, ["syntax error"]
    except AnalysisError as e:
        return mt, ["ALL=2 %s" % str(e)[:100]]
    out = []
    for k in range(1, 21):
        prop = "C%02d" % k
        fired, err, allres = [], None, []
        try:
            from rxsa.engine import run_rules
            allres, err = run_rules(ctx, props.rules_for(prop))
            fired = [] if err else [f.rule for r in allres for f in r.findings]
        except AnalysisError as e:
            err = str(e)
        except Exception as e:
            err = "internal error: %r" % (e,)
        if err:
            out.append("%s=2" % prop)
        elif fired:
            out.append("%s:%s" % (prop, "/".join(sorted(set(fired)))))
    return mt, out


if __name__ == "__main__":
    muts = runpy.run_path(sys.argv[1])["MUTANTS"]
    with ProcessPoolExecutor(max_workers=16) as ex:
        res = list(ex.map(run, muts))
    for (rel, old, new, note), out in res:
        print("%-34s %-58s -> %s" % (rel.replace("rxsci/", ""), note[:58], " ".join(out) or "** not reported **"))
