#!/venv/bin/python
"""tools/muttest.py <report.tsv from mutgen.py> [--out file] : for every mutant no check reported, run the repository's test
suite on a scratch copy (under /tmp, removed afterwards) with the mutant applied.  A mutant the tests kill is not a
realistic change (the brief's changes pass the existing tests); the survivors are the list to triage by reading.
Exploration helper only: this is never part of a check."""
import os, shutil, subprocess, sys, tempfile
from concurrent.futures import ThreadPoolExecutor
sys.path.insert(0, os.path.dirname(os.path.abspath(__file__)))
from mutgen import mutants_of

ROOT = os.environ.get("RXSA_REPO", "/repo")


def test(job):
    rel, desc, ln, new = job
    d = tempfile.mkdtemp(prefix="mt_", dir="/tmp")
    try:
        subprocess.run(["rsync", "-a", "--exclude=.git", "--exclude=__pycache__", ROOT + "/", d + "/"], check=True)
        open(os.path.join(d, rel), "w").write(new)
        env = dict(os.environ, PYTHONPATH=d, PYTHONDONTWRITEBYTECODE="1")
        try:
            p = subprocess.run(["/venv/bin/python", "-m", "pytest", "-q", "-x", "-p", "no:cacheprovider", "--timeout=120"], cwd=d, env=env,
                               stdout=subprocess.PIPE, stderr=subprocess.STDOUT, timeout=600)
            ok = p.returncode == 0
            tail = p.stdout.decode(errors="replace").strip().splitlines()[-1:] or [""]
        except subprocess.TimeoutExpired:
            ok, tail = False, ["timeout"]
        return rel, desc, ln, ok, tail[0]
    finally:
        shutil.rmtree(d, ignore_errors=True)


if __name__ == "__main__":
    rep = sys.argv[1]
    outp = sys.argv[sys.argv.index("--out") + 1] if "--out" in sys.argv else None
    want = {}
    for line in open(rep):
        f = line.rstrip("\n").split("\t")
        if f[0] != "unreported":
            continue
        rel, ln = f[1].rsplit(":", 1)
        want.setdefault("rxsci/" + rel, set()).add((f[2], int(ln)))
    jobs = []
    for rel, keys in sorted(want.items()):
        for d, ln, new in mutants_of(open(os.path.join(ROOT, rel)).read()):
            if (d, ln) in keys:
                jobs.append((rel, d, ln, new))
    print("%d unreported mutants to test" % len(jobs), file=sys.stderr)
    with ThreadPoolExecutor(max_workers=14) as ex:
        res = list(ex.map(test, jobs))
    lines = []
    for rel, d, ln, ok, tail in res:
        lines.append("%s\t%s:%d\t%s\t%s" % ("SURVIVES" if ok else "killed", rel.replace("rxsci/", ""), ln, d, tail))
    text = "\n".join(lines)
    if outp:
        open(outp, "w").write(text + "\n")
    else:
        print(text)
    print("survivors: %d of %d" % (sum(1 for r in res if r[3]), len(res)), file=sys.stderr)
