"""ad-hoc: tools/mut.py <Cnn> <relpath> <old> <new>  -- analyse an in-memory variant"""
import sys, os
sys.path.insert(0, os.path.dirname(os.path.dirname(os.path.abspath(__file__))))
from rxsa.loader import Program, AnalysisError
from rxsa.engine import Ctx
from rxsa import props

prop, rel, old, new = sys.argv[1:5]
tier = sys.argv[5] if len(sys.argv) > 5 else "quick"
base = Program()
src = base.by_relpath[rel].src
old = old.encode().decode('unicode_escape'); new = new.encode().decode('unicode_escape')
assert src.count(old) >= 1, "old text not found"
print("occurrences:", src.count(old))
prog = base.overlay(rel, src.replace(old, new, 1))
try:
    ctx = Ctx(program=prog, tier=tier)
    for rule in props.rules_for(prop):
        res = rule(ctx)
        for r in (res if isinstance(res, list) else [res]):
            for f in r.findings:
                print("FINDING", f.rule, f.construct, "@", f.where)
                print("    ", f.message)
except AnalysisError as e:
    print("ANALYSIS-ERROR", e)
print("done")
