#!/venv/bin/python
"""tools/sites.py : list the construction sites (and template instances) of the analysed tree"""
import os, sys
sys.path.insert(0, os.path.dirname(os.path.dirname(os.path.abspath(__file__))))
from rxsa.engine import Ctx
c = Ctx()
for s in c.all_sites:
    hs = []
    for sub in s.subscriptions:
        hs.append("/".join("%s:%s" % (k[3:], h.how if h.how != "fn" else h.spec.module.scopes[h.spec.fn].qualname.split(".")[-1]) for k, h in sub.handlers.items()) or ("passthrough" if sub.passthrough else "-"))
    print("%-8s %-42s %-70s %s %s" % (s.ctor, s.anchor_rel, s.short, "; ".join(hs), ("ERROR " + s.error) if s.error else ""))
print(len(c.all_sites), "sites")
