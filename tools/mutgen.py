#!/venv/bin/python
"""tools/mutgen.py [--files f1,f2,..] [--out report.tsv] [--max N]

Systematic mutation analysis of the checker (exploration helper, not a check): for every anchor file of
properties.jsonl (plus the operators they build on) generate first-order AST mutants -- comparison operators,
negated tests, deleted call statements, constants, arithmetic operators, swapped arguments, and/or -- analyse each
in memory with all 20 properties (quick tier) and list the mutants no check reports.  Nothing is executed and /repo
is not touched.  Triage of the unreported list is manual: equivalent or property-irrelevant mutants stay, the others
become obligations (DESIGN.md section 12)."""
import ast, copy, json, os, sys
from concurrent.futures import ProcessPoolExecutor
sys.path.insert(0, os.path.dirname(os.path.dirname(os.path.abspath(__file__))))

CMP = {ast.Is: [ast.IsNot], ast.IsNot: [ast.Is], ast.Eq: [ast.NotEq], ast.NotEq: [ast.Eq], ast.Lt: [ast.LtE, ast.Gt], ast.LtE: [ast.Lt],
       ast.Gt: [ast.GtE, ast.Lt], ast.GtE: [ast.Gt], ast.In: [ast.NotIn], ast.NotIn: [ast.In]}
BIN = {ast.Add: [ast.Sub], ast.Sub: [ast.Add], ast.Mult: [ast.FloorDiv], ast.FloorDiv: [ast.Mult], ast.Div: [ast.Mult], ast.Mod: [ast.FloorDiv]}


def docstring_nodes(tree):
    out = set()
    for n in ast.walk(tree):
        if isinstance(n, (ast.FunctionDef, ast.ClassDef, ast.Module, ast.AsyncFunctionDef)) and n.body and isinstance(n.body[0], ast.Expr) \
                and isinstance(n.body[0].value, ast.Constant) and isinstance(n.body[0].value.value, str):
            out.add(id(n.body[0].value))
    return out


EXTRA = bool(os.environ.get("MUTGEN_EXTRA"))
EVENT_FIELDS = {"key": ["item"], "item": ["key"], "store": ["key"], "error": ["key"]}


def siblings(name, names):
    """other names of the same function that share a prefix or a suffix of at least 4 characters with name (state_start / state_last,
    observer / outer_observer): the variables a slip confuses"""
    out = []
    for o in sorted(names):
        if o == name:
            continue
        a, b = name.split("_"), o.split("_")
        if (len(a) > 1 or len(b) > 1) and (a[0] == b[0] or a[-1] == b[-1]) and len(a[0] if a[0] == b[0] else a[-1]) >= 4:
            out.append(o)
    return out[:2]


def _replace_node(tree, old, new):
    for p in ast.walk(tree):
        for fld, val in ast.iter_fields(p):
            if val is old:
                setattr(p, fld, new)
                return
            if isinstance(val, list):
                for k, v in enumerate(val):
                    if v is old:
                        val[k] = new
                        return
    return False


def mutants_of(src):
    """[(description, lineno, new source)]"""
    tree = ast.parse(src)
    names_by_fn = {}
    for f in ast.walk(tree):
        if isinstance(f, (ast.FunctionDef, ast.Lambda)):
            ns = set()
            for x in ast.walk(f):
                if isinstance(x, ast.Name):
                    ns.add(x.id)
                elif isinstance(x, ast.arg):
                    ns.add(x.arg)
            names_by_fn[id(f)] = ns
    docs = docstring_nodes(tree)
    nodes = list(ast.walk(tree))
    out = []

    def emit(desc, node, apply):
        t2 = copy.deepcopy(tree)
        n2 = list(ast.walk(t2))[nodes.index(node)]
        if apply(n2, t2) is False:
            return
        ast.fix_missing_locations(t2)
        try:
            new = ast.unparse(t2)
            compile(new, "<m>", "exec")
        except Exception:
            return
        out.append((desc, getattr(node, "lineno", 0), new))

    def in_raise(node, parents):
        p = parents.get(id(node))
        while p is not None:
            if isinstance(p, ast.Raise):
                return True
            p = parents.get(id(p))
        return False

    parents = {}
    for n in nodes:
        for c in ast.iter_child_nodes(n):
            parents[id(c)] = n

    for n in nodes:
        if isinstance(n, ast.Compare):
            for k, op in enumerate(n.ops):
                for rep in CMP.get(type(op), []):
                    def ap(x, t, k=k, rep=rep):
                        x.ops[k] = rep()
                    emit("cmp %s->%s: %s" % (type(op).__name__, rep.__name__, ast.unparse(n)[:60]), n, ap)
        elif isinstance(n, ast.BoolOp):
            def ap(x, t):
                x.op = ast.Or() if isinstance(x.op, ast.And) else ast.And()
            emit("boolop flip: %s" % ast.unparse(n)[:60], n, ap)
        elif isinstance(n, ast.BinOp) and type(n.op) in BIN:
            if isinstance(n.left, ast.Constant) and isinstance(n.left.value, str):
                continue
            if in_raise(n, parents):
                continue
            for rep in BIN[type(n.op)]:
                def ap(x, t, rep=rep):
                    x.op = rep()
                emit("binop %s->%s: %s" % (type(n.op).__name__, rep.__name__, ast.unparse(n)[:60]), n, ap)
        elif isinstance(n, (ast.If, ast.While, ast.IfExp)) and not isinstance(n.test, ast.Compare):
            def ap(x, t):
                x.test = ast.UnaryOp(op=ast.Not(), operand=x.test)
            emit("negate test: %s" % ast.unparse(n.test)[:60], n, ap)
        elif isinstance(n, ast.Constant) and id(n) not in docs and not in_raise(n, parents):
            v = n.value
            if isinstance(v, bool):
                def ap(x, t):
                    x.value = not x.value
                emit("const %r->%r" % (v, not v), n, ap)
            elif isinstance(v, int):
                def ap(x, t):
                    x.value = x.value + 1
                emit("const %r->%r" % (v, v + 1), n, ap)
                if v != 0:
                    def ap0(x, t):
                        x.value = x.value - 1
                    emit("const %r->%r" % (v, v - 1), n, ap0)
            elif v is None and isinstance(parents.get(id(n)), (ast.Call, ast.keyword, ast.Return, ast.Assign, ast.Tuple)):
                pass
        elif isinstance(n, ast.Expr) and isinstance(n.value, ast.Call):
            par = parents.get(id(n))
            def ap(x, t):
                for p in ast.walk(t):
                    for fld in ("body", "orelse", "finalbody"):
                        b = getattr(p, fld, None)
                        if isinstance(b, list) and x in b:
                            k = b.index(x)
                            b[k] = ast.Pass()
                            return
                return False
            emit("delete stmt: %s" % ast.unparse(n)[:70], n, ap)
        elif isinstance(n, ast.Call) and len(n.args) >= 2 and not any(isinstance(a, ast.Starred) for a in n.args) and not in_raise(n, parents):
            if ast.unparse(n.args[0]) != ast.unparse(n.args[1]):
                def ap(x, t):
                    x.args[0], x.args[1] = x.args[1], x.args[0]
                emit("swap args: %s" % ast.unparse(n)[:70], n, ap)
        elif isinstance(n, (ast.Break, ast.Continue)):
            def ap(x, t):
                for p in ast.walk(t):
                    for fld in ("body", "orelse", "finalbody"):
                        b = getattr(p, fld, None)
                        if isinstance(b, list) and x in b:
                            b[b.index(x)] = ast.Pass()
                            return
                return False
            emit("delete %s" % type(n).__name__.lower(), n, ap)
        elif isinstance(n, ast.Return) and n.value is not None and isinstance(parents.get(id(n)), (ast.If,)):
            # an early return inside a branch: fall through instead
            def ap(x, t):
                for p in ast.walk(t):
                    for fld in ("body", "orelse"):
                        b = getattr(p, fld, None)
                        if isinstance(b, list) and x in b and isinstance(p, ast.If):
                            b[b.index(x)] = ast.Pass()
                            return
                return False
            if n.value is None:
                emit("delete early return", n, ap)
        if EXTRA and isinstance(n, (ast.Assign, ast.AugAssign)) and not isinstance(parents.get(id(n)), (ast.Module, ast.ClassDef)):
            def ap(x, t):
                for p_ in ast.walk(t):
                    for fld in ("body", "orelse", "finalbody"):
                        b = getattr(p_, fld, None)
                        if isinstance(b, list) and x in b:
                            b[b.index(x)] = ast.Pass()
                            return
                return False
            emit("delete assign: %s" % ast.unparse(n)[:70], n, ap)
        if EXTRA and isinstance(n, ast.Attribute) and isinstance(n.ctx, ast.Load) and n.attr in EVENT_FIELDS and isinstance(n.value, ast.Name):
            for rep in EVENT_FIELDS[n.attr]:
                def ap(x, t, rep=rep):
                    x.attr = rep
                emit("field %s->%s: %s" % (n.attr, rep, ast.unparse(n)), n, ap)
        if EXTRA and isinstance(n, ast.Name) and isinstance(n.ctx, ast.Load):
            f = parents.get(id(n))
            while f is not None and not isinstance(f, (ast.FunctionDef, ast.Lambda)):
                f = parents.get(id(f))
            sib = siblings(n.id, names_by_fn.get(id(f), ())) if f is not None else []
            for rep in sib:
                def ap(x, t, rep=rep):
                    x.id = rep
                emit("name %s->%s" % (n.id, rep), n, ap)
        if EXTRA and isinstance(n, (ast.FunctionDef, ast.If, ast.For, ast.While, ast.With, ast.Try)):
            for fld in ("body", "orelse"):
                b = getattr(n, fld, None)
                if not isinstance(b, list):
                    continue
                for k in range(len(b) - 1):
                    s1, s2 = b[k], b[k + 1]
                    if isinstance(s1, (ast.Expr, ast.Assign, ast.AugAssign)) and isinstance(s2, (ast.Expr, ast.Assign, ast.AugAssign)) \
                            and not (isinstance(s1, ast.Expr) and isinstance(s1.value, ast.Constant)):
                        def ap(x, t, fld=fld, k=k):
                            bb = getattr(x, fld)
                            bb[k], bb[k + 1] = bb[k + 1], bb[k]
                        emit("swap stmts: %s <-> %s" % (ast.unparse(s1)[:40], ast.unparse(s2)[:40]), n, ap)
        if EXTRA and isinstance(n, ast.Call) and n.keywords and not in_raise(n, parents):
            for k, kw in enumerate(n.keywords):
                if kw.arg is None:
                    continue
                def ap(x, t, k=k):
                    del x.keywords[k]
                emit("drop kwarg %s: %s" % (kw.arg, ast.unparse(n)[:60]), n, ap)
        if EXTRA and isinstance(n, ast.Constant) and isinstance(n.value, str) and id(n) not in docs and not in_raise(n, parents):
            v = n.value
            reps = []
            if v and len(v) <= 3 and set(v) <= set("rwabt+"):
                reps = [v.replace("b", "")] if "b" in v else [v + "b"]
                if "w" in v:
                    reps.append(v.replace("w", "a"))
            elif v in ("little", "big"):
                reps = ["big" if v == "little" else "little"]
            for rep in reps:
                if rep:
                    def ap(x, t, rep=rep):
                        x.value = rep
                    emit("str %r->%r" % (v, rep), n, ap)
        if EXTRA and isinstance(n, ast.Slice):
            for fld in ("lower", "upper"):
                if getattr(n, fld) is not None:
                    def ap(x, t, fld=fld):
                        setattr(x, fld, ast.BinOp(left=getattr(x, fld), op=ast.Add(), right=ast.Constant(1)))
                    emit("slice %s+1: %s" % (fld, ast.unparse(n)[:50]), n, ap)
        if EXTRA and isinstance(n, ast.Expr) and isinstance(n.value, ast.Call) and not isinstance(parents.get(id(n)), (ast.Module, ast.ClassDef)):
            def ap(x, t):
                for p_ in ast.walk(t):
                    for fld in ("body", "orelse", "finalbody"):
                        b = getattr(p_, fld, None)
                        if isinstance(b, list) and x in b:
                            b.insert(b.index(x), copy.deepcopy(x))
                            return
                return False
            emit("dup stmt: %s" % ast.unparse(n)[:70], n, ap)
        if EXTRA and isinstance(n, ast.If) and not all(isinstance(s, (ast.Raise, ast.Pass)) for s in n.body):
            def ap(x, t):
                x.body = [ast.Pass()]
            emit("empty arm: if %s" % ast.unparse(n.test)[:60], n, ap)
            if n.orelse and not (len(n.orelse) == 1 and isinstance(n.orelse[0], ast.If)):
                def ap2(x, t):
                    x.orelse = []
                emit("drop else of: if %s" % ast.unparse(n.test)[:60], n, ap2)
        # ---- round 5: language-level traps -------------------------------------
        if EXTRA and isinstance(n, ast.Compare) and len(n.ops) == 1 and isinstance(n.ops[0], (ast.Is, ast.IsNot)) \
                and isinstance(n.comparators[0], ast.Constant) and n.comparators[0].value is None:
            def ap(x, t):
                repl = x.left if isinstance(x.ops[0], ast.IsNot) else ast.UnaryOp(op=ast.Not(), operand=x.left)
                return _replace_node(t, x, repl)
            emit("truthy: %s" % ast.unparse(n)[:60], n, ap)
        if EXTRA and isinstance(n, ast.Compare) and len(n.ops) == 1 and isinstance(n.ops[0], (ast.Gt, ast.NotEq, ast.Eq)) \
                and isinstance(n.left, ast.Call) and isinstance(n.left.func, ast.Name) and n.left.func.id == "len" \
                and isinstance(n.comparators[0], ast.Constant) and n.comparators[0].value == 0:
            def ap(x, t):
                inner = x.left.args[0]
                return _replace_node(t, x, ast.UnaryOp(op=ast.Not(), operand=inner) if isinstance(x.ops[0], ast.Eq) else inner)
            emit("truthy: %s" % ast.unparse(n)[:60], n, ap)
        if EXTRA and isinstance(n, ast.If) and len(n.orelse) == 1 and isinstance(n.orelse[0], ast.If):
            def ap(x, t):
                nxt = x.orelse[0]
                for p_ in ast.walk(t):
                    for fld in ("body", "orelse", "finalbody"):
                        b = getattr(p_, fld, None)
                        if isinstance(b, list) and x in b:
                            x.orelse = []
                            b.insert(b.index(x) + 1, nxt)
                            return
                return False
            emit("elif->if: %s" % ast.unparse(n.orelse[0].test)[:60], n, ap)
        if EXTRA and isinstance(n, ast.Call) and isinstance(n.func, ast.Attribute) and not in_raise(n, parents):
            sib = {"append": "extend", "extend": "append", "popleft": "pop", "appendleft": "append", "add": "discard", "rstrip": "strip",
                   "lstrip": "strip", "strip": "rstrip", "split": "rsplit", "setdefault": "get", "update": "setdefault"}.get(n.func.attr)
            if sib is not None:
                def ap(x, t, sib=sib):
                    x.func.attr = sib
                emit("method %s->%s: %s" % (n.func.attr, sib, ast.unparse(n)[:50]), n, ap)
            if n.func.attr == "pop" and len(n.args) == 1 and isinstance(n.args[0], ast.Constant) and n.args[0].value == 0:
                def ap(x, t):
                    x.args = []
                emit("pop(0)->pop(): %s" % ast.unparse(n)[:50], n, ap)
        if EXTRA and isinstance(n, ast.For) and not isinstance(n.iter, ast.Call):
            for what in ("drop-last", "drop-first", "reversed"):
                def ap(x, t, what=what):
                    lst = ast.Call(func=ast.Name(id="list", ctx=ast.Load()), args=[x.iter], keywords=[])
                    if what == "reversed":
                        x.iter = ast.Subscript(value=lst, slice=ast.Slice(step=ast.UnaryOp(op=ast.USub(), operand=ast.Constant(1))), ctx=ast.Load())
                    elif what == "drop-last":
                        x.iter = ast.Subscript(value=lst, slice=ast.Slice(upper=ast.UnaryOp(op=ast.USub(), operand=ast.Constant(1))), ctx=ast.Load())
                    else:
                        x.iter = ast.Subscript(value=lst, slice=ast.Slice(lower=ast.Constant(1)), ctx=ast.Load())
                emit("loop %s: for %s in %s" % (what, ast.unparse(n.target), ast.unparse(n.iter)[:40]), n, ap)
        if EXTRA and isinstance(n, ast.Call) and n.args and not in_raise(n, parents) and not (isinstance(n.func, ast.Name) and n.func.id in (
                "isinstance", "len", "type", "print", "range", "ValueError", "TypeError", "NotImplementedError", "super", "getattr", "hasattr")):
            for k, a in enumerate(n.args):
                if isinstance(a, (ast.Starred,)) or (isinstance(a, ast.Constant) and a.value is None):
                    continue
                def ap(x, t, k=k):
                    x.args[k] = ast.Constant(None)
                emit("arg %d->None: %s" % (k, ast.unparse(n)[:60]), n, ap)
        if EXTRA and isinstance(n, ast.Try) and len(n.body) > 1:
            def ap(x, t):
                for p_ in ast.walk(t):
                    for fld in ("body", "orelse", "finalbody"):
                        b = getattr(p_, fld, None)
                        if isinstance(b, list) and x in b:
                            b.insert(b.index(x) + 1, x.body.pop())
                            return
                return False
            emit("last stmt out of try: %s" % ast.unparse(n.body[-1])[:60], n, ap)

            def ap2(x, t):
                for p_ in ast.walk(t):
                    for fld in ("body", "orelse", "finalbody"):
                        b = getattr(p_, fld, None)
                        if isinstance(b, list) and x in b:
                            b.insert(b.index(x), x.body.pop(0))
                            return
                return False
            emit("first stmt out of try: %s" % ast.unparse(n.body[0])[:60], n, ap2)
        if EXTRA and isinstance(n, ast.BoolOp) and isinstance(n.op, ast.Or) and len(n.values) == 2 and not isinstance(parents.get(id(n)), (ast.If, ast.While, ast.BoolOp)):
            def ap(x, t):
                return _replace_node(t, x, x.values[0])
            emit("drop 'or' default: %s" % ast.unparse(n)[:60], n, ap)
        if isinstance(n, ast.Return) and n.value is None and isinstance(parents.get(id(n)), ast.If):
            def ap(x, t):
                for p in ast.walk(t):
                    for fld in ("body", "orelse"):
                        b = getattr(p, fld, None)
                        if isinstance(b, list) and x in b:
                            b[b.index(x)] = ast.Pass()
                            return
                return False
            emit("delete early return", n, ap)
    return out


def run(job):
    rel, desc, lineno, new = job
    from rxsa import props
    from rxsa.engine import Ctx, unresolved_guard
    from rxsa.loader import AnalysisError, Program
    base = Program(os.environ.get("RXSA_REPO", "/repo"))
    try:
        prog = base.overlay(rel, new)
        ctx = Ctx(program=prog, tier="quick")
    except AnalysisError as e:
        return rel, desc, lineno, ["ALL=2"]
    except Exception as e:
        return rel, desc, lineno, ["ALL=internal %r" % (e,)]
    out = []
    for k in range(1, 21):
        prop = "C%02d" % k
        fired, err, allres = [], None, []
        try:
            from rxsa.engine import run_rules
            allres, err = run_rules(ctx, props.rules_for(prop))
            fired = [] if err else [f.rule for r in allres for f in r.findings]
        except AnalysisError as e:
            err = str(e)
        except Exception as e:
            err = "internal error: %r" % (e,)
        if err:
            out.append("%s=2" % prop)
        elif fired:
            out.append("%s:%s" % (prop, "/".join(sorted(set(fired)))))
    return rel, desc, lineno, out


if __name__ == "__main__":
    args = sys.argv[1:]
    files, outp, mx = None, None, None
    while args:
        a = args.pop(0)
        if a == "--files":
            files = args.pop(0).split(",")
        elif a == "--out":
            outp = args.pop(0)
        elif a == "--max":
            mx = int(args.pop(0))
    root = os.environ.get("RXSA_REPO", "/repo")
    if files is None:
        fs = set()
        for l in open(os.path.join(os.path.dirname(os.path.dirname(os.path.abspath(__file__))), "properties.jsonl")):
            fs |= set(json.loads(l)["anchors"]["files"])
        files = sorted(fs)
    jobs = []
    for rel in files:
        src = open(os.path.join(root, rel)).read()
        ms = mutants_of(src)
        if mx:
            ms = ms[:mx]
        if os.environ.get("MUTGEN_EXTRA") == "only":
            ms = [x for x in ms if x[0].startswith(tuple(os.environ.get("MUTGEN_ONLY", "field ,name ,swap stmts,delete assign").split(",")))]
        if os.environ.get("MUTGEN_KEYS"):
            # only the mutants listed in a muttest report (SURVIVES lines): re-run after a rule was strengthened
            keys = set()
            for l in open(os.environ["MUTGEN_KEYS"]):
                f = l.rstrip("\n").split("\t")
                if f[0] == "SURVIVES":
                    keys.add((f[1], f[2]))
            ms = [x for x in ms if ("%s:%d" % (rel.replace("rxsci/", ""), x[1]), x[0]) in keys]
        jobs += [(rel, d, ln, new) for d, ln, new in ms]
    print("%d mutants over %d files" % (len(jobs), len(files)), file=sys.stderr)
    with ProcessPoolExecutor(max_workers=16) as ex:
        res = list(ex.map(run, jobs, chunksize=4))
    lines = []
    stats = {"reported": 0, "exit2": 0, "unreported": 0}
    for rel, desc, ln, out in res:
        if not out:
            cls = "unreported"
        elif all(o.endswith("=2") or o.startswith("ALL=") for o in out):
            cls = "exit2"
        else:
            cls = "reported"
        stats[cls] += 1
        lines.append("%s\t%s:%d\t%s\t%s" % (cls, rel.replace("rxsci/", ""), ln, desc, " ".join(out)))
    text = "\n".join(lines)
    if outp:
        open(outp, "w").write(text + "\n")
    else:
        print(text)
    print(stats, file=sys.stderr)
