"""Generate MANIFEST.json from rxsa.props (single source of truth)."""
import json, os, sys
sys.path.insert(0, os.path.dirname(os.path.dirname(os.path.abspath(__file__))))
from rxsa import props

ALL = ["C%02d" % i for i in range(1, 21)]
checks = []
na = []
for pid in ALL:
    if props.rules_for(pid) is not None:
        checks.append({
            "property_id": pid,
            "quick_cmd": "bin/sa-check %s --tier quick" % pid,
            "thorough_cmd": "bin/sa-check %s --tier thorough" % pid,
            "evidence_file": "evidence/%s.json" % pid,
            "replay_cmd_template": "bin/sa-check %s --replay {path}" % pid,
            "engine": "rxsa",
            "level_claimed": {
                "category": props.LEVEL.get(pid, "other"),
                "text": props.LEVEL_TEXT.get(pid, props.DEFAULT_LEVEL_TEXT),
                "design_ref": "DESIGN.md section 3, %s" % pid,
            },
            "level_note": props.LEVEL_NOTE.get(pid, props.DEFAULT_LEVEL_NOTE),
            "technique": props.TECHNIQUE.get(pid, "static analysis: path-sensitive dataflow / typestate over the AST"),
        })
    else:
        na.append({"property_id": pid, "reason": props.NOT_APPLICABLE.get(pid, "static check not built yet; no claim is made")})
manifest = {
    "version": 1,
    "setup_cmd": "true",
    "hooks": {
        "guard": "RXSCI_VERIF",
        "enable": "none needed: the checks parse /repo/rxsci source and never import or run it",
        "baseline_off_cmd": "cd /repo && /venv/bin/python -m pytest -ra -q -p no:cacheprovider --timeout=900",
        "source_commits": [],
        "add_only": True,
    },
    "engines": [{
        "name": "rxsa",
        "path": "rxsa/",
        "serves_properties": [c["property_id"] for c in checks],
        "kind_free_text": "repository-specific static analyser (stdlib ast): resolver, operator model, per-event-kind path "
                          "enumerator with copy-propagated value terms, effect/typestate/dependence rules",
    }],
    "checks": checks,
    "not_applicable": na,
    "notes": "Static analysis only; see DESIGN.md. Exit 0 holds, 1 VIOLATION, 2 ANALYSIS-ERROR (cannot analyse; never a silent pass).",
}
with open(os.path.join(os.path.dirname(os.path.dirname(os.path.abspath(__file__))), "MANIFEST.json"), "w") as f:
    json.dump(manifest, f, indent=1)
print("claimed:", [c["property_id"] for c in checks])
