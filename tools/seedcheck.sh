#!/bin/sh
# tools/seedcheck.sh <tree> : run the 20 quick checks against another source tree (evidence goes to a scratch dir)
TREE="$1"
OUT=$(mktemp -d)
for i in 01 02 03 04 05 06 07 08 09 10 11 12 13 14 15 16 17 18 19 20; do
  RXSA_REPO="$TREE" RXSA_EVIDENCE_DIR="$OUT" /verif/bin/sa-check C$i > "$OUT/C$i.log" 2>&1
  rc=$?
  if [ $rc -ne 0 ]; then
    echo "C$i exit=$rc: $(grep -E '^  [A-Z][A-Za-z0-9./-]+ rxsci|^  [A-Z][A-Z0-9-]+[a-z]? [a-z]|ANALYSIS-ERROR' "$OUT/C$i.log" | head -3 | cut -c1-220 | tr '\n' '|')"
  fi
done
rm -rf "$OUT"
